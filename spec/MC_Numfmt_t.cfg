SPECIFICATION Spec
CONSTANTS
  WMax = 12
  BigWs <- BigWs_t
  Ms = {0, 1, 2, 3, 4, 5, 6, 7, 8, 9, 10}
  KStep = 2
  Ps = {0, 1, 2, 3, 4, 5, 6, 7, 8, 9, 10, 11, 20}
  Styles = {"expanded", "compressed"}
  Negs = {0, 1}
INVARIANTS Laws DevsBreakLaw Emit
CHECK_DEADLOCK FALSE
