SPECIFICATION Spec
CONSTANTS
  MaxW = 2
  MaxRoot = 2
  MaxMid = 0
  RootTargets = {"a", "b", "math"}
  MidTargets = {"a"}
  Spellings = {"plain", "us", "ext", "dir"}
  CfgPool = "full"
  ListPool = "basic"
  AccNs = {"", "a", "b", "n", "math"}
  LawDev = {}
  AccMembers <- AccMembersAll
INVARIANTS InvNamespaceOnly InvConfigOnlyDefault InvShowHideComplement InvFilterExact InvBuiltin Emit
CHECK_DEADLOCK FALSE
