SPECIFICATION Spec
CONSTANTS
  MaxItems = 2
  KS = {"d_ident", "p_ident", "m_feat", "d_callx", "m_callx", "d_str"}
  CS = {"digit", "hyphen"}
  SH = {"lead", "mid"}
  CT = {}
  FN = {"translate", "translateX", "Foo"}
INVARIANT Generated
INVARIANT EmitVec
CHECK_DEADLOCK FALSE
