SPECIFICATION Spec
CONSTANTS
  Operands = {"1", "2", "3", "true", "false"}
  Ops = {"*", "%", "+", "-", "<", "<=", ">", ">=", "==", "!=", "and", "or"}
  Uns = {"not", "neg"}
  MaxOps = 2
  MaxUn = 0
  MaxPar = 0
INVARIANTS LawParenStable LawWellShaped LawTotal Emit
CHECK_DEADLOCK FALSE
