SPECIFICATION Spec
CONSTANTS
  Cps = {34, 39, 92, 1, 10, 9, 127, 32, 97, 120, 233, 57344, 128512, 45}
  KindSet = {"raw", "bs", "hex", "hexsp", "hex6"}
  Quotes = {34, 39}
  MaxLen = 2
  MaxCont = 0
INVARIANTS LawDecode LawLen Emit
CHECK_DEADLOCK FALSE
