SPECIFICATION Spec
CONSTANTS
  Files = {"r", "a", "b"}
  Root = "r"
  SubFiles = {"b"}
  MaxDepth = 8
  FileSeq <- Seq3
  MaxStmts = 3
  GenKinds = {"use", "forward"}
  GenSpellings = {"plain", "dot", "dd", "ext"}
  DevChoices <- DevIdeal
  MaxFaultAt = 0
INVARIANTS UrlsResolve LockDiscipline DepthBound LoopOnlyOnCycle NeverOverflow InitOnce OkOnlyAcyclic Emit
PROPERTY Termination
CHECK_DEADLOCK FALSE
