SPECIFICATION Spec
CONSTANTS
  Simples = {"a", ".b", "%p"}
  Sfx = {}
  Combs = {"sp"}
  LeadCombs = {}
  Fns = {":not(", ":is(", ":where(", ":matches(", ":has("}
  MaxLevels = 1
  MaxList = 3
  MaxArgList = 2
  MaxComps = 2
  MaxSimp = 2
  MaxTotal = 4
  MaxFn = 2
  MaxDepth = 2
  Amp = {}
  MaxAmp = 0
INVARIANTS InvLaws Emit
CHECK_DEADLOCK FALSE
