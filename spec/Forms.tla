------------------------------- MODULE Forms -------------------------------
(***************************************************************************)
(* Property C34: every built-in function that exists both globally and in  *)
(* a `sass:` module gives the same result for the same arguments, whether  *)
(* they are passed by position or by name, called directly or through      *)
(* meta.call(meta.get-function(name), args...).                            *)
(*                                                                         *)
(* This module holds                                                       *)
(*   - Table: every global/module pair the Sass documentation declares     *)
(*     equivalent, WITH the documented parameter names and a type tag per  *)
(*     parameter that selects the argument pool;                           *)
(*   - Pool: the argument pools (opaque tokens; engines/forms.py maps a    *)
(*     token to its SCSS literal and nothing else);                        *)
(*   - FormsOf: the passing forms that apply to a pair and an arity;       *)
(*   - FormsAgree: the law over one observation (the results of all forms  *)
(*     for one pair and one argument tuple);                               *)
(*   - named deviations as scope predicates + predicted classes.           *)
(*                                                                         *)
(* Abstracts rsass/src/sass/functions/mod.rs (FUNCTIONS, MODULES), the     *)
(* expose() tables of string.rs list.rs map.rs math.rs color/*.rs          *)
(* selector.rs meta.rs, meta.rs (call, get_function), sass/formal_args.rs. *)
(*                                                                         *)
(* Left out, with the reason:                                              *)
(*   unique-id, random          not deterministic                          *)
(*   content-exists, keywords   need a mixin / argument-list context        *)
(*   map-set, calc-args ...     no documented global alias                 *)
(*   lighten, darken, saturate, desaturate, adjust-hue, opacify, fade-in,  *)
(*   transparentize, fade-out   global only (not in sass:color)            *)
(*   numbers as arguments of grayscale/invert/alpha/opacity and mixed-unit *)
(*   arguments of min/max/round/abs: there the global name is ALSO a plain *)
(*   CSS function and Sass itself documents a different result             *)
(***************************************************************************)
EXTENDS Integers, Sequences, FiniteSets, TLC

P(n, t) == [n |-> n, t |-> t]

(* g: global name; mod/f: module and member; params: documented parameter  *)
(* names with pool tags; req: number of required parameters; forms:        *)
(* "all" | "pos" (rest parameter: positional only) | "kw" (first           *)
(* positional, the others keyword-only)                                     *)
Row(g, mod, f, params, req, forms) == [g |-> g, mod |-> mod, f |-> f, params |-> params, req |-> req, forms |-> forms]

Table == <<
  (* ---- sass:string ---- *)
  Row("quote", "string", "quote", <<P("string", "str")>>, 1, "all"),
  Row("unquote", "string", "unquote", <<P("string", "str")>>, 1, "all"),
  Row("str-length", "string", "length", <<P("string", "str")>>, 1, "all"),
  Row("to-upper-case", "string", "to-upper-case", <<P("string", "str")>>, 1, "all"),
  Row("to-lower-case", "string", "to-lower-case", <<P("string", "str")>>, 1, "all"),
  Row("str-index", "string", "index", <<P("string", "str"), P("substring", "sub")>>, 2, "all"),
  Row("str-insert", "string", "insert", <<P("string", "str"), P("insert", "sub"), P("index", "idx")>>, 3, "all"),
  Row("str-slice", "string", "slice", <<P("string", "str"), P("start-at", "idx"), P("end-at", "idx")>>, 2, "all"),
  (* ---- sass:list ---- *)
  Row("length", "list", "length", <<P("list", "list")>>, 1, "all"),
  Row("is-bracketed", "list", "is-bracketed", <<P("list", "list")>>, 1, "all"),
  Row("list-separator", "list", "separator", <<P("list", "list")>>, 1, "all"),
  Row("nth", "list", "nth", <<P("list", "list"), P("n", "idx")>>, 2, "all"),
  Row("index", "list", "index", <<P("list", "list"), P("value", "any")>>, 2, "all"),
  Row("set-nth", "list", "set-nth", <<P("list", "list"), P("n", "idx"), P("value", "any")>>, 3, "all"),
  Row("append", "list", "append", <<P("list", "list"), P("val", "any"), P("separator", "sep")>>, 2, "all"),
  Row("join", "list", "join", <<P("list1", "list"), P("list2", "list"), P("separator", "sep"), P("bracketed", "bool3")>>, 2, "all"),
  Row("zip", "list", "zip", <<P("lists", "list"), P("lists", "list")>>, 1, "pos"),
  (* ---- sass:map ---- *)
  Row("map-get", "map", "get", <<P("map", "map"), P("key", "key")>>, 2, "all"),
  Row("map-has-key", "map", "has-key", <<P("map", "map"), P("key", "key")>>, 2, "all"),
  Row("map-keys", "map", "keys", <<P("map", "map")>>, 1, "all"),
  Row("map-values", "map", "values", <<P("map", "map")>>, 1, "all"),
  Row("map-merge", "map", "merge", <<P("map1", "map"), P("map2", "map")>>, 2, "all"),
  Row("map-remove", "map", "remove", <<P("map", "map"), P("keys", "key"), P("keys", "key")>>, 1, "pos"),
  (* ---- sass:math ---- *)
  Row("ceil", "math", "ceil", <<P("number", "num")>>, 1, "all"),
  Row("floor", "math", "floor", <<P("number", "num")>>, 1, "all"),
  Row("round", "math", "round", <<P("number", "num")>>, 1, "all"),
  Row("abs", "math", "abs", <<P("number", "num")>>, 1, "all"),
  Row("percentage", "math", "percentage", <<P("number", "num")>>, 1, "all"),
  Row("unit", "math", "unit", <<P("number", "num")>>, 1, "all"),
  Row("unitless", "math", "is-unitless", <<P("number", "num")>>, 1, "all"),
  Row("comparable", "math", "compatible", <<P("number1", "num"), P("number2", "num")>>, 2, "all"),
  Row("max", "math", "max", <<P("number", "numu"), P("number", "numu"), P("number", "numu")>>, 1, "pos"),
  Row("min", "math", "min", <<P("number", "numu"), P("number", "numu"), P("number", "numu")>>, 1, "pos"),
  (* ---- sass:color ---- *)
  Row("red", "color", "red", <<P("color", "color")>>, 1, "all"),
  Row("green", "color", "green", <<P("color", "color")>>, 1, "all"),
  Row("blue", "color", "blue", <<P("color", "color")>>, 1, "all"),
  Row("hue", "color", "hue", <<P("color", "color")>>, 1, "all"),
  Row("saturation", "color", "saturation", <<P("color", "color")>>, 1, "all"),
  Row("lightness", "color", "lightness", <<P("color", "color")>>, 1, "all"),
  Row("alpha", "color", "alpha", <<P("color", "color")>>, 1, "all"),
  Row("opacity", "color", "opacity", <<P("color", "color")>>, 1, "all"),
  Row("complement", "color", "complement", <<P("color", "color")>>, 1, "all"),
  Row("grayscale", "color", "grayscale", <<P("color", "color")>>, 1, "all"),
  Row("ie-hex-str", "color", "ie-hex-str", <<P("color", "color")>>, 1, "all"),
  Row("invert", "color", "invert", <<P("color", "color"), P("weight", "pct")>>, 1, "all"),
  Row("mix", "color", "mix", <<P("color1", "color"), P("color2", "color"), P("weight", "pct")>>, 2, "all"),
  Row("hwb", "color", "hwb", <<P("hue", "numu"), P("whiteness", "pct"), P("blackness", "pct")>>, 3, "all"),
  Row("adjust-color", "color", "adjust", <<P("color", "color"), P("red", "numu")>>, 2, "kw"),
  Row("adjust-color", "color", "adjust", <<P("color", "color"), P("lightness", "pct")>>, 2, "kw"),
  Row("scale-color", "color", "scale", <<P("color", "color"), P("lightness", "pct")>>, 2, "kw"),
  Row("scale-color", "color", "scale", <<P("color", "color"), P("alpha", "pct")>>, 2, "kw"),
  Row("change-color", "color", "change", <<P("color", "color"), P("blue", "numu")>>, 2, "kw"),
  Row("change-color", "color", "change", <<P("color", "color"), P("alpha", "numu")>>, 2, "kw"),
  (* ---- sass:selector ---- *)
  Row("is-superselector", "selector", "is-superselector", <<P("super", "sel"), P("sub", "sel")>>, 2, "all"),
  Row("selector-parse", "selector", "parse", <<P("selector", "sel")>>, 1, "all"),
  Row("simple-selectors", "selector", "simple-selectors", <<P("selector", "sel")>>, 1, "all"),
  Row("selector-unify", "selector", "unify", <<P("selector1", "sel"), P("selector2", "sel")>>, 2, "all"),
  Row("selector-extend", "selector", "extend", <<P("selector", "sel"), P("extendee", "sel"), P("extender", "sel")>>, 3, "all"),
  Row("selector-replace", "selector", "replace", <<P("selector", "sel"), P("original", "sel"), P("replacement", "sel")>>, 3, "all"),
  Row("selector-nest", "selector", "nest", <<P("selectors", "sel"), P("selectors", "sel")>>, 1, "pos"),
  Row("selector-append", "selector", "append", <<P("selectors", "sel"), P("selectors", "sel")>>, 1, "pos"),
  (* ---- sass:meta ---- *)
  Row("type-of", "meta", "type-of", <<P("value", "any")>>, 1, "all"),
  Row("inspect", "meta", "inspect", <<P("value", "any")>>, 1, "all"),
  Row("feature-exists", "meta", "feature-exists", <<P("feature", "feat")>>, 1, "all"),
  Row("function-exists", "meta", "function-exists", <<P("name", "name")>>, 1, "all"),
  Row("mixin-exists", "meta", "mixin-exists", <<P("name", "name")>>, 1, "all"),
  Row("variable-exists", "meta", "variable-exists", <<P("name", "name")>>, 1, "all"),
  Row("global-variable-exists", "meta", "global-variable-exists", <<P("name", "name")>>, 1, "all"),
  Row("get-function", "meta", "get-function", <<P("name", "name")>>, 1, "all"),
  Row("call", "meta", "call", <<P("function", "fnref"), P("args", "str")>>, 2, "pos")
>>

(* The pools are chosen to SEPARATE near-miss sibling implementations (a     *)
(* global name wired to a similar but different function): strings with      *)
(* non-ASCII upper- and lower-case letters, multi-code-point (combining) and *)
(* astral characters, quoted and unquoted; numbers with units, negative and  *)
(* fractional; colors in hsl / hwb notation and with alpha; lists with       *)
(* brackets and every separator; maps; null; plus one ill-typed value.       *)
Pool(t) ==
  CASE t = "str"   -> {"s_abc", "s_empty", "u_abc", "s_uni", "s_upper", "s_lower", "u_upper", "s_astral", "s_comb", "x_num"}
    [] t = "sub"   -> {"s_b", "s_empty", "s_zz", "u_c", "s_uml", "s_emoji"}
    [] t = "idx"   -> {"n_1", "n_2", "n_m1", "n_0", "n_9", "n_1h", "n_m2"}
    [] t = "num"   -> {"n_0", "n_1", "n_m1", "n_1h", "n_2px", "n_50pct", "n_mfrac", "n_m2h5px", "n_deg", "x_str"}
    [] t = "numu"  -> {"n_0", "n_1", "n_m1", "n_1h", "n_30", "n_mhalf"}
    [] t = "pct"   -> {"n_0pct", "n_50pct", "n_100pct", "n_25", "n_33pct"}
    [] t = "list"  -> {"l_abc", "l_comma", "l_empty", "l_br", "l_brcomma", "l_null", "u_a", "m_ab"}
    [] t = "any"   -> {"u_a", "u_b", "n_1", "null", "l_comma", "s_upper", "m_ab"}
    [] t = "map"   -> {"m_ab", "m_empty", "m_nest", "m_mixed", "x_num"}
    [] t = "key"   -> {"u_a", "u_b", "u_zz", "n_1", "null", "s_qa"}
    [] t = "sep"   -> {"u_comma", "u_space", "u_auto", "u_slash", "x_bad"}
    [] t = "bool3" -> {"true", "false", "u_auto"}
    [] t = "color" -> {"c_red", "c_hex", "c_rgba", "c_hsl", "c_hsla", "c_hwb", "c_hexa", "x_strc"}
    [] t = "sel"   -> {"q_a", "q_ab", "q_list", "q_child", "u_c", "x_num"}
    [] t = "name"  -> {"q_red", "q_nope", "q_x", "q_fn", "x_num"}
    [] t = "feat"  -> {"q_at_error", "q_nope"}
    [] t = "fnref" -> {"f_strlen", "f_css", "x_num"}

PoolTags == {"str", "sub", "idx", "num", "numu", "pct", "list", "any", "map", "key", "sep", "bool3", "color", "sel",
             "name", "feat", "fnref"}

(* the table is well formed: this is what TLC checks on the table itself *)
TableOK ==
  \A i \in DOMAIN Table :
    LET r == Table[i] IN
    /\ r.req >= 1 /\ r.req <= Len(r.params)
    /\ r.forms \in {"all", "pos", "kw"}
    /\ \A j \in DOMAIN r.params : r.params[j].t \in PoolTags
    /\ (r.forms # "pos" => \A j, k \in DOMAIN r.params : j # k => r.params[j].n # r.params[k].n)   \* distinct names where names are used
    /\ r.mod \in {"string", "list", "map", "math", "color", "selector", "meta"}

(* passing styles and forms that apply to row r with nargs arguments *)
Styles(r, nargs) ==
  CASE r.forms = "pos" -> {"pos"}
    [] r.forms = "kw"  -> {"named", "mixed"}
    [] r.forms = "all" -> {"pos", "named"} \cup (IF nargs >= 2 THEN {"mixed"} ELSE {})
Callers == {"g", "m", "cg", "cm"}      \* global, module, meta.call of the global / module function reference
FormsOf(r, nargs) == {c \o "_" \o s : c \in Callers, s \in Styles(r, nargs)}

(* one result: [k |-> "val" | "err" | other class, v |-> inspect text] *)
Agree(x, y) == \/ (x.k = "err" /\ y.k = "err")
               \/ (x.k = "val" /\ y.k = "val" /\ x.v = y.v)

(* the law: all forms agree *)
FormsAgree(res, forms) == \A f1, f2 \in forms : Agree(res[f1], res[f2])
AgreeOn(res, forms) == FormsAgree(res, forms)

---------------------------------------------------------------------------
(* Named deviations: scope predicate over (row, args) + the set of forms   *)
(* that leave the consensus + the class they show.  An observation is      *)
(* explained by deviation d iff it is in d's scope, the forms outside      *)
(* DevForms agree with each other and every form in DevForms shows         *)
(* exactly DevClass.                                                        *)
AllForms == {c \o "_" \o s : c \in Callers, s \in {"pos", "named", "mixed"}}

ModuleSide == {c \o "_" \o s : c \in {"m", "cm"}, s \in {"pos", "named", "mixed"}}

(*   global_grayscale_drops_hsl  the global grayscale() is a second            *)
(*        implementation (color/hsl.rs expose) that does not keep the hsl       *)
(*        format of its argument: it answers rgb(127.5, 127.5, 127.5) where     *)
(*        color.grayscale answers hsl(120, 0%, 50%)                              *)
DevScope(d, r, args) ==
  CASE d = "global_grayscale_drops_hsl" -> r.g = "grayscale" /\ Len(args) = 1 /\ args[1] \in {"c_hsl", "c_hsla"}
    [] OTHER -> FALSE

DevForms(d, r, args) ==
  CASE d = "global_grayscale_drops_hsl" -> ModuleSide
    [] OTHER -> {}

DevClass(d) ==
  CASE d = "global_grayscale_drops_hsl" -> "val"
    [] OTHER -> "none"

ExplainedBy(d, r, args, res, forms) ==
  LET out == DevForms(d, r, args) \cap forms IN
  /\ DevScope(d, r, args)
  /\ out # {} /\ out # forms
  /\ AgreeOn(res, forms \ out)
  /\ AgreeOn(res, out)
  /\ \A f \in out : res[f].k = DevClass(d)
  /\ ~AgreeOn(res, forms)
=============================================================================
