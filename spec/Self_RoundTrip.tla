----------------------------- MODULE Self_RoundTrip -----------------------------
(* Self-test wrapper for Trace_RoundTrip (used only by tools/selftests.d): events carry expect = "accept" | "reject"   *)
(* and the production operator Trace_RoundTrip!Explained must agree with it for every event, in one TLC run.           *)
EXTENDS Trace_RoundTrip

NextS == /\ l <= Len(Rec)
         /\ (IF Rec[l].expect = "reject" THEN Explained(Rec[l]) = FALSE ELSE Explained(Rec[l]) = TRUE)
         /\ l' = l + 1
SpecS == Init /\ [][NextS]_l
=============================================================================
