SPECIFICATION Spec
CONSTANTS
  Kind = "each"
  Ctxs = {"top", "mixin", "fn"}
  CondSet = {}
  MaxConds = 0
  ElseSet = {}
  NCondSet = {}
  AVals = {}
  BVals = {}
  TVals = {}
  UnitsA = {}
  UnitsB = {}
  MaxOut = 100
  Shapes = {"space", "comma", "bracket", "map"}
  NVars = {1, 2, 3}
  ItemCodes <- Codes4
  MaxItems = 4
  ISeps = {"space", "comma"}
INVARIANTS LawHolds LawWellFormed Emit
CHECK_DEADLOCK FALSE
