SPECIFICATION Spec
CONSTANTS
  Simples = {"a", ".c", "#i", "[x]", ":hover", "%p"}
  Sfx = {"-x"}
  Combs = {"sp"}
  LeadCombs = {}
  Fns = {}
  MaxLevels = 2
  MaxList = 2
  MaxArgList = 1
  MaxComps = 1
  MaxSimp = 2
  MaxTotal = 4
  MaxFn = 0
  MaxDepth = 0
  Amp = {"top"}
  MaxAmp = 1
INVARIANTS InvLaws Emit
CHECK_DEADLOCK FALSE
