SPECIFICATION Spec
CONSTANTS
  Prop = "C31"
  RgbGrid <- RgbGridFull
  RgbForms = {"comma", "space"}
  RgbpGrid <- RgbpGridFull
  PctGrid <- PctGridFull
  HueGrid <- HueGridFull
  HslForms = {"comma", "space"}
  HwbForms = {"space"}
  AlphaGrid <- AlphaGridFull
  HexDigits = {0, 5, 8, 15}
  HexBytes = {0, 85, 128, 255}
  NameForms = {"lower", "upper"}
  Deltas = {}
  Amounts = {}
  Fns = {}
  FnsNamed = {}
  Styles = {}
INVARIANTS LawIdealInRange LawRefBound LawPartnersSame Emit
CHECK_DEADLOCK FALSE
