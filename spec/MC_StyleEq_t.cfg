SPECIFICATION Spec
CONSTANTS
  MaxItems = 2
  Sels = {"t", "desc", "child", "list", "dcls", "id"}
  Vals = {"half", "neg", "red", "white", "transp", "imp", "cm", "str"}
  Kinds = {"rule", "media", "import", "cmt"}
INVARIANT SameStylesheet
INVARIANT FaultsRejected
INVARIANT EmitVec
CHECK_DEADLOCK FALSE
