SPECIFICATION Spec
CONSTANTS
  Kind = "for"
  Ctxs = {"top", "fn"}
  CondSet = {}
  MaxConds = 0
  ElseSet = {}
  NCondSet = {}
  AVals <- NearInch
  BVals = {1}
  TVals <- NoInts
  UnitsA = {"px", "pt", ""}
  UnitsB = {"in", "pc", ""}
  MaxOut = 100
  Shapes = {}
  NVars = {}
  ItemCodes = {}
  MaxItems = 0
  ISeps = {}
INVARIANTS LawHolds LawWellFormed Emit
CHECK_DEADLOCK FALSE
