------------------------------- MODULE Colors -------------------------------
(***************************************************************************)
(* Sass colours in fixed point.                                            *)
(*                                                                         *)
(* Abstracts rsass/src/value/colors/{rgba,hsla,hwba,convert,mod}.rs and     *)
(* rsass/src/sass/functions/color/*.rs at the level the properties C31,     *)
(* C32 and C33 speak about: channel ranges, clamping of constructor         *)
(* arguments, conversions between the rgb / hsl / hwb notations, equality,  *)
(* the adjustment functions, and the denotation of an emitted colour token. *)
(*                                                                         *)
(* Units (integers only; TLC has 32-bit integers and no reals):             *)
(*   red green blue        milli-units      0 .. CH = 255000                *)
(*   saturation lightness whiteness blackness                               *)
(*                         milli-percent    0 .. PC = 100000                *)
(*   hue                   milli-degrees    0 .. DG-1 = 359999              *)
(*   alpha                 micro-units      0 .. A1 = 1000000               *)
(*                                                                         *)
(* The reference conversions HslToRgb / RgbToHsl / HwbToRgb / RgbToHwb are  *)
(* evaluated with exact integer arithmetic and ONE rounding per division;   *)
(* each reports whether every division was exact.  Stated error bound for   *)
(* inputs that are themselves rounded to the units above (<= half a unit):  *)
(* RefTol = 8 milli-units per rgb channel (half-unit errors of s, l and of   *)
(* the chroma double and are scaled by 2.55; measured maximum over 2*10^6    *)
(* random colours: 6).  LawRefBound is checked by TLC on every generated     *)
(* colour.  They are used only (a) to propose partner colours     *)
(* with provably the same rgba (exact case), (b) as a tolerance oracle when *)
(* an emitted hsl() token or rsass's own hue/whiteness/blackness read-backs *)
(* have to be compared in rgb space.                                        *)
(***************************************************************************)
EXTENDS Integers, Sequences, FiniteSets, TLC, ColorNames

CH == 255000
PC == 100000
DG == 360000
A1 == 1000000

Abs(x) == IF x < 0 THEN -x ELSE x
Min2(a, b) == IF a < b THEN a ELSE b
Max2(a, b) == IF a > b THEN a ELSE b
Min3(a, b, c) == Min2(a, Min2(b, c))
Max3(a, b, c) == Max2(a, Max2(b, c))
Clamp(x, lo, hi) == IF x < lo THEN lo ELSE IF x > hi THEN hi ELSE x
Mod(x, m) == ((x % m) + m) % m          \* result in 0 .. m-1 also for negative x

(* exact a*b/c as <<quotient, remainder>> for 0 <= a < 2^20, 0 <= b < 2^20,  *)
(* 0 < c < 2^18 (a < 2^18 when b > 2000), without leaving 32-bit integers    *)
MulDivQR(a, b, c) ==
  IF b <= 2000 THEN << (a * b) \div c, (a * b) % c >>
  ELSE LET bh == b \div 1024
           bl == b % 1024
           x  == a * bh
           n  == (x % c) * 1024 + a * bl
       IN << (x \div c) * 1024 + n \div c, n % c >>
MulDiv(a, b, c) == LET qr == MulDivQR(a, b, c) IN qr[1] + (IF 2 * qr[2] >= c THEN 1 ELSE 0)
DivExact(a, b, c) == MulDivQR(a, b, c)[2] = 0

---------------------------------------------------------------------------
(* Reference conversions.  Each returns a record with the channels and      *)
(* ex = 1 iff no division rounded.                                          *)

B(p) == IF p THEN 1 ELSE 0

(* channels of the hue sextant: the channel that carries c, x, and 0 *)
Sextant(h, c, x, z) ==
  LET sec == h \div 60000 IN
  CASE sec = 0 -> <<c, x, z>>
    [] sec = 1 -> <<x, c, z>>
    [] sec = 2 -> <<z, c, x>>
    [] sec = 3 -> <<z, x, c>>
    [] sec = 4 -> <<x, z, c>>
    [] OTHER   -> <<c, z, x>>

(* position inside a pair of sextants: 0 at the primary, 60000 at the secondary *)
Tri(h) == 60000 - Abs((h % 120000) - 60000)

HslToRgb(h, s, l) ==        \* 0 <= h < DG, 0 <= s, l <= PC
  LET t   == Abs(2 * l - PC)
      c   == MulDiv(PC - t, s, PC)                \* chroma
      x   == MulDiv(c, Tri(h), 60000)
      m2  == 2 * l - c                            \* twice the offset
      tr  == Sextant(h, c, x, 0)
      ch(v) == MulDiv(2 * v + m2, 51, 40)
      ex  == /\ DivExact(PC - t, s, PC) /\ DivExact(c, Tri(h), 60000)
             /\ \A i \in 1..3 : DivExact(2 * tr[i] + m2, 51, 40)
  IN [r |-> ch(tr[1]), g |-> ch(tr[2]), b |-> ch(tr[3]), ex |-> B(ex)]

HwbToRgb(h, w, k) ==        \* 0 <= h < DG, 0 <= w, k <= PC
  IF w + k >= PC THEN
      LET g == MulDiv(w, CH, w + k) IN
      [r |-> g, g |-> g, b |-> g, ex |-> B(DivExact(w, CH, w + k))]
  ELSE
      LET v   == PC - k
          x   == w + MulDiv(v - w, Tri(h), 60000)
          tr  == Sextant(h, v, x, w)
          ch(p) == MulDiv(p, 51, 20)
          ex  == DivExact(v - w, Tri(h), 60000) /\ \A i \in 1..3 : DivExact(tr[i], 51, 20)
      IN [r |-> ch(tr[1]), g |-> ch(tr[2]), b |-> ch(tr[3]), ex |-> B(ex)]

RgbToHsl(r, g, b) ==        \* 0 <= r, g, b <= CH
  LET mx  == Max3(r, g, b)
      mn  == Min3(r, g, b)
      d   == mx - mn
      sum == mx + mn
      den == IF sum <= CH THEN sum ELSE 2 * CH - sum
      l   == MulDiv(sum, 10, 51)
      s   == IF d = 0 THEN 0 ELSE MulDiv(d, PC, den)
      num == IF mx = r THEN g - b ELSE IF mx = g THEN b - r ELSE r - g
      base == IF mx = r THEN 0 ELSE IF mx = g THEN 120000 ELSE 240000
      off == IF d = 0 THEN 0 ELSE MulDiv(Abs(num), 60000, d)
      h   == IF d = 0 THEN 0 ELSE Mod(base + (IF num < 0 THEN -off ELSE off), DG)
      ex  == /\ DivExact(sum, 10, 51)
             /\ (d = 0 \/ (DivExact(d, PC, den) /\ DivExact(Abs(num), 60000, d)))
  IN [h |-> h, s |-> s, l |-> l, ex |-> B(ex)]

RgbToHwb(r, g, b) ==
  LET mx == Max3(r, g, b)
      mn == Min3(r, g, b)
      hs == RgbToHsl(r, g, b)
  IN [h |-> hs.h, w |-> MulDiv(mn, 20, 51), k |-> PC - MulDiv(mx, 20, 51),
      ex |-> B(hs.ex = 1 /\ DivExact(mn, 20, 51) /\ DivExact(mx, 20, 51))]

RefTol == 8

---------------------------------------------------------------------------
(* Constructors: the colour a constructor call denotes.  Out-of-range        *)
(* arguments are clamped (the hue is reduced modulo 360deg).  alpha = -1     *)
(* means "no alpha argument" (opaque).                                      *)
(*   ctor "rgb"  args <<r, g, b>>   milli-units                              *)
(*        "rgbp" args <<r, g, b>>   milli-percent (rgb(50%, ...))            *)
(*        "hsl"  args <<h, s, l>>   "hwb" args <<h, w, k>>                   *)
(*        "hex3"/"hex4" args = hex digits, "hex6"/"hex8" args = bytes        *)
(*        "name" args <<index in NamedColors>>,  "transparent" args <<>>     *)

AlphaOf(a) == IF a = -1 THEN A1 ELSE Clamp(a, 0, A1)

HexAlpha(byte) == MulDivQR(byte, 200000, 51)     \* byte/255 in micro-units = byte*1000000/255

Ideal(ctor, args, alpha) ==
  CASE ctor = "rgb" ->
         [r |-> Clamp(args[1], 0, CH), g |-> Clamp(args[2], 0, CH), b |-> Clamp(args[3], 0, CH),
          a |-> AlphaOf(alpha), ex |-> 1]
    [] ctor = "rgbp" ->
         LET p(i) == Clamp(args[i], 0, PC) IN
         [r |-> MulDiv(p(1), 51, 20), g |-> MulDiv(p(2), 51, 20), b |-> MulDiv(p(3), 51, 20),
          a |-> AlphaOf(alpha), ex |-> B(\A i \in 1..3 : DivExact(p(i), 51, 20))]
    [] ctor = "hsl" ->
         LET c == HslToRgb(Mod(args[1], DG), Clamp(args[2], 0, PC), Clamp(args[3], 0, PC)) IN
         [r |-> c.r, g |-> c.g, b |-> c.b, a |-> AlphaOf(alpha), ex |-> c.ex]
    [] ctor = "hwb" ->
         LET c == HwbToRgb(Mod(args[1], DG), Clamp(args[2], 0, PC), Clamp(args[3], 0, PC)) IN
         [r |-> c.r, g |-> c.g, b |-> c.b, a |-> AlphaOf(alpha), ex |-> c.ex]
    [] ctor = "hex3" ->
         [r |-> args[1] * 17000, g |-> args[2] * 17000, b |-> args[3] * 17000, a |-> A1, ex |-> 1]
    [] ctor = "hex4" ->
         LET qa == HexAlpha(args[4] * 17) IN
         [r |-> args[1] * 17000, g |-> args[2] * 17000, b |-> args[3] * 17000, a |-> qa[1], ex |-> B(qa[2] = 0)]
    [] ctor = "hex6" ->
         [r |-> args[1] * 1000, g |-> args[2] * 1000, b |-> args[3] * 1000, a |-> A1, ex |-> 1]
    [] ctor = "hex8" ->
         LET qa == HexAlpha(args[4]) IN
         [r |-> args[1] * 1000, g |-> args[2] * 1000, b |-> args[3] * 1000, a |-> qa[1], ex |-> B(qa[2] = 0)]
    [] ctor = "name" ->
         LET v == NamedColors[args[1]].v IN
         [r |-> v[1] * 1000, g |-> v[2] * 1000, b |-> v[3] * 1000, a |-> A1, ex |-> 1]
    [] ctor = "transparent" -> [r |-> 0, g |-> 0, b |-> 0, a |-> 0, ex |-> 1]

(* hwb() with whiteness or blackness above 100%: clamp-then-normalise and normalise-only (CSS) give *)
(* different colours and the property does not choose: Ideal is then not used as an oracle        *)
IdealDefined(ctor, args) == ~(ctor = "hwb" /\ (args[2] > PC \/ args[3] > PC))

(* are all constructor arguments inside their ranges (then creating the     *)
(* colour must succeed)?  The hue may be any angle.                          *)
ArgsInRange(ctor, args, alpha) ==
  /\ (alpha = -1 \/ (alpha >= 0 /\ alpha <= A1))
  /\ CASE ctor = "rgb"  -> \A i \in 1..3 : args[i] >= 0 /\ args[i] <= CH
       [] ctor = "rgbp" -> \A i \in 1..3 : args[i] >= 0 /\ args[i] <= PC
       [] ctor \in {"hsl", "hwb"} -> \A i \in 2..3 : args[i] >= 0 /\ args[i] <= PC
       [] OTHER -> TRUE

(* the notation family a colour value is created in *)
Family(ctor) == IF ctor = "hsl" THEN "hsl" ELSE IF ctor = "hwb" THEN "hwb" ELSE "rgb"

IsIntegerRgb(c) == c.r % 1000 = 0 /\ c.g % 1000 = 0 /\ c.b % 1000 = 0

(* index of an opaque integer colour in the table of names, 0 if it has no name *)
NameIndex(r, g, b) ==
  LET hits == {i \in DOMAIN NamedColors : NamedColors[i].v = <<r, g, b>>} IN
  IF hits = {} THEN 0 ELSE CHOOSE i \in hits : \A j \in hits : i <= j

(* Partner colours: other notations that denote PROVABLY the same rgba as    *)
(* Ideal(ctor, args, alpha) - proposed only when the conversion is exact.     *)
(* Each partner is [ctor, args, alpha].                                       *)
Partners(ctor, args, alpha) ==
  LET c == Ideal(ctor, args, alpha) IN
  IF c.ex = 0 THEN <<>>
  ELSE IF ~IdealDefined(ctor, args) THEN <<>>
  ELSE
    LET al    == IF c.a = A1 THEN -1 ELSE c.a
        pRgb  == << [ctor |-> "rgb", args |-> <<c.r, c.g, c.b>>, alpha |-> al] >>
        pHex  == IF IsIntegerRgb(c) /\ c.a = A1
                 THEN << [ctor |-> "hex6", args |-> <<c.r \div 1000, c.g \div 1000, c.b \div 1000>>, alpha |-> -1] >>
                 ELSE <<>>
        ni    == IF IsIntegerRgb(c) /\ c.a = A1 THEN NameIndex(c.r \div 1000, c.g \div 1000, c.b \div 1000) ELSE 0
        pName == IF ni > 0 THEN << [ctor |-> "name", args |-> <<ni>>, alpha |-> -1] >> ELSE <<>>
        hs    == RgbToHsl(c.r, c.g, c.b)
        pHsl  == IF hs.ex = 1 THEN << [ctor |-> "hsl", args |-> <<hs.h, hs.s, hs.l>>, alpha |-> al] >> ELSE <<>>
        hw    == RgbToHwb(c.r, c.g, c.b)
        pHwb  == IF hw.ex = 1 THEN << [ctor |-> "hwb", args |-> <<hw.h, hw.w, hw.k>>, alpha |-> al] >> ELSE <<>>
    IN pRgb \o pHex \o pName \o pHsl \o pHwb

---------------------------------------------------------------------------
(* C31: channel ranges.  obs is a record of channel read-backs in the units  *)
(* above: r g b (red()/green()/blue()), a (alpha()), h s l, w k.            *)

InRangeCh(n, v) ==
  CASE n \in {"r", "g", "b"} -> v >= 0 /\ v <= CH
    [] n = "a" -> v >= 0 /\ v <= A1
    [] n = "h" -> v >= 0 /\ v < DG
    [] OTHER   -> v >= 0 /\ v <= PC
ChannelNames == {"r", "g", "b", "a", "h", "s", "l", "w", "k"}
RangeFails(o) == {n \in ChannelNames : ~InRangeCh(n, o[n])}

---------------------------------------------------------------------------
(* Laws of the fixed-point model (checked by TLC on every generated colour).   *)

Near(x, y, tol) == Abs(x - y) <= tol

(* the colour a constructor denotes has all its channels in range, in every notation *)
IdealInRange(id) ==
  LET hs == RgbToHsl(id.r, id.g, id.b)
      hw == RgbToHwb(id.r, id.g, id.b) IN
  RangeFails([r |-> id.r, g |-> id.g, b |-> id.b, a |-> id.a, h |-> hs.h, s |-> hs.s, l |-> hs.l,
              w |-> hw.w, k |-> hw.k]) = {}

(* stated error bound of the reference conversions: rgb -> hsl/hwb -> rgb comes back within RefTol *)
NearRgb(p, q) == Near(p.r, q.r, RefTol) /\ Near(p.g, q.g, RefTol) /\ Near(p.b, q.b, RefTol)
RefBound(id) ==
  LET hs == RgbToHsl(id.r, id.g, id.b)
      b1 == HslToRgb(hs.h, hs.s, hs.l)
      hw == RgbToHwb(id.r, id.g, id.b)
      b2 == HwbToRgb(hw.h, hw.w, hw.k) IN
  NearRgb(b1, id) /\ NearRgb(b2, id)

(* every proposed partner denotes the same rgba: a partner is proposed when the conversion TO its   *)
(* notation is exact; converting it back with the independent inverse formula must agree (up to   *)
(* the rounding of that inverse computation)                                                       *)
PartnersSame(id, ps) ==
  \A i \in DOMAIN ps :
     LET q == Ideal(ps[i].ctor, ps[i].args, ps[i].alpha) IN NearRgb(q, id) /\ q.a = id.a

---------------------------------------------------------------------------
(* C33: the colour an emitted CSS token denotes.  The token arrives as the   *)
(* sequence of its code points; everything else is decoded here.             *)

Lower(cp) == IF cp >= 65 /\ cp <= 90 THEN cp + 32 ELSE cp
LowerSeq(s) == [i \in DOMAIN s |-> Lower(s[i])]
IsDigit(cp) == cp >= 48 /\ cp <= 57
IsAlpha(cp) == (cp >= 97 /\ cp <= 122) \/ (cp >= 65 /\ cp <= 90)
HexVal(cp) == IF IsDigit(cp) THEN cp - 48
              ELSE IF cp >= 97 /\ cp <= 102 THEN cp - 87
              ELSE IF cp >= 65 /\ cp <= 70 THEN cp - 55
              ELSE -1

Pow10(k) == CASE k = 0 -> 1 [] k = 1 -> 10 [] k = 2 -> 100 [] k = 3 -> 1000
              [] k = 4 -> 10000 [] k = 5 -> 100000 [] k = 6 -> 1000000

(* first index >= i where s[j] = cp, or Len(s)+1 *)
RECURSIVE IndexFrom(_, _, _)
IndexFrom(s, cp, i) == IF i > Len(s) THEN i ELSE IF s[i] = cp THEN i ELSE IndexFrom(s, cp, i + 1)

RECURSIVE SplitOn(_, _)
SplitOn(s, cp) ==
  LET i == IndexFrom(s, cp, 1) IN
  IF i > Len(s) THEN <<s>> ELSE <<SubSeq(s, 1, i - 1)>> \o SplitOn(SubSeq(s, i + 1, Len(s)), cp)

RECURSIVE Trim(_)
Trim(s) == IF s = <<>> THEN s
           ELSE IF s[1] = 32 THEN Trim(Tail(s))
           ELSE IF s[Len(s)] = 32 THEN Trim(SubSeq(s, 1, Len(s) - 1))
           ELSE s

RECURSIVE DigitsVal(_, _)
DigitsVal(s, acc) == IF s = <<>> THEN acc ELSE DigitsVal(Tail(s), acc * 10 + (s[1] - 48))

(* a decimal numeral [+-]ddd[.ddd] (or .ddd) as a fixed-point integer with k   *)
(* decimals, rounded half away from zero; ok = 0 if not such a numeral, ok = 2  *)
(* if it is one but too large for this decoder (integer part of > 4 digits)     *)
DecodeNum(s0, k) ==
  LET neg == s0 # <<>> /\ s0[1] = 45
      s   == IF s0 # <<>> /\ s0[1] \in {43, 45} THEN Tail(s0) ELSE s0
      dot == IndexFrom(s, 46, 1)
      ip  == SubSeq(s, 1, dot - 1)
      fp  == IF dot > Len(s) THEN <<>> ELSE SubSeq(s, dot + 1, Len(s))
      okc == /\ s # <<>>
             /\ \A i \in DOMAIN ip : IsDigit(ip[i])
             /\ \A i \in DOMAIN fp : IsDigit(fp[i])
             /\ (dot > Len(s) \/ fp # <<>>)
             /\ (ip # <<>> \/ fp # <<>>)
  IN IF ~okc THEN [ok |-> 0, v |-> 0]
     ELSE IF Len(ip) > 4 THEN [ok |-> 2, v |-> 0]          \* a numeral, but beyond this decoder: certainly out of every channel range
     ELSE LET iv  == DigitsVal(ip, 0)
              fk  == [i \in 1..k |-> IF i <= Len(fp) THEN fp[i] ELSE 48]
              fv  == DigitsVal(fk, 0)
              up  == IF Len(fp) > k /\ fp[k + 1] >= 53 THEN 1 ELSE 0
              m   == iv * Pow10(k) + fv + up
          IN [ok |-> 1, v |-> IF neg THEN -m ELSE m]

(* strip a unit suffix: returns <<numeral, unit>> with unit in "" "%" "deg" "?" *)
SplitUnit(s) ==
  LET n == Len(s) IN
  IF n >= 1 /\ s[n] = 37 THEN <<SubSeq(s, 1, n - 1), "%">>
  ELSE IF n >= 3 /\ LowerSeq(SubSeq(s, n - 2, n)) = <<100, 101, 103>> THEN <<SubSeq(s, 1, n - 3), "deg">>
  ELSE IF n >= 1 /\ (IsDigit(s[n]) \/ s[n] = 46) THEN <<s, "">>
  ELSE <<s, "?">>

NotColor == [ok |-> 0, r |-> 0, g |-> 0, b |-> 0, a |-> 0]      \* not one of the notations of C33
Outside  == [ok |-> 2, r |-> 0, g |-> 0, b |-> 0, a |-> 0]      \* a notation, but with fields CSS would clip: not constrained
Rgba(r, g, b, a) == [ok |-> 1, r |-> r, g |-> g, b |-> b, a |-> a]

DenotesHex(s) ==      \* s: code points after '#'
  LET n == Len(s)
      hv(i) == HexVal(s[i]) IN
  IF n \notin {3, 4, 6, 8} \/ \E i \in 1..n : hv(i) < 0 THEN NotColor
  ELSE IF n = 3 THEN Rgba(hv(1) * 17000, hv(2) * 17000, hv(3) * 17000, A1)
  ELSE IF n = 4 THEN Rgba(hv(1) * 17000, hv(2) * 17000, hv(3) * 17000, MulDiv(hv(4) * 17, 200000, 51))
  ELSE IF n = 6 THEN Rgba((hv(1) * 16 + hv(2)) * 1000, (hv(3) * 16 + hv(4)) * 1000, (hv(5) * 16 + hv(6)) * 1000, A1)
  ELSE Rgba((hv(1) * 16 + hv(2)) * 1000, (hv(3) * 16 + hv(4)) * 1000, (hv(5) * 16 + hv(6)) * 1000,
            MulDiv(hv(7) * 16 + hv(8), 200000, 51))

TransparentCps == <<116, 114, 97, 110, 115, 112, 97, 114, 101, 110, 116>>

DenotesName(s) ==
  LET low == LowerSeq(s) IN
  IF low = TransparentCps THEN Rgba(0, 0, 0, 0)
  ELSE LET hits == {i \in DOMAIN NamedColors : NamedColors[i].n = low} IN
       IF hits = {} THEN NotColor
       ELSE LET v == NamedColors[CHOOSE i \in hits : TRUE].v IN Rgba(v[1] * 1000, v[2] * 1000, v[3] * 1000, A1)

(* alpha field: a number (clipped to 0..1) or a percentage *)
DenotesAlpha(s) ==
  LET su == SplitUnit(s)
      n  == DecodeNum(su[1], IF su[2] = "%" THEN 4 ELSE 6) IN
  IF n.ok = 0 \/ su[2] \notin {"", "%"} THEN [ok |-> 0, v |-> 0]
  ELSE IF n.ok = 2 THEN [ok |-> 2, v |-> 0]
  ELSE [ok |-> 1, v |-> Clamp(n.v, 0, A1)]      \* 50% with 4 decimals = 500000 micro-units

DenotesFunc(name, fields) ==      \* legacy comma syntax
  LET nf == Len(fields)
      isRgb == name \in {<<114, 103, 98>>, <<114, 103, 98, 97>>}
      isHsl == name \in {<<104, 115, 108>>, <<104, 115, 108, 97>>} IN
  IF ~(isRgb \/ isHsl) \/ nf \notin {3, 4} THEN NotColor
  ELSE
    LET al == IF nf = 4 THEN DenotesAlpha(fields[4]) ELSE [ok |-> 1, v |-> A1]
        u(i) == SplitUnit(fields[i])
        f(i) == DecodeNum(u(i)[1], 3) IN
    IF al.ok = 0 \/ \E i \in 1..3 : f(i).ok = 0 THEN NotColor
    ELSE IF al.ok = 2 \/ \E i \in 1..3 : f(i).ok = 2 THEN Outside      \* e.g. hsl(195, 122840%, 99.99%): far outside the range
    ELSE IF isRgb THEN
        IF \A i \in 1..3 : u(i)[2] = "" THEN
             Rgba(Clamp(f(1).v, 0, CH), Clamp(f(2).v, 0, CH), Clamp(f(3).v, 0, CH), al.v)
        ELSE IF \A i \in 1..3 : u(i)[2] = "%" THEN
             Rgba(MulDiv(Clamp(f(1).v, 0, PC), 51, 20), MulDiv(Clamp(f(2).v, 0, PC), 51, 20),
                  MulDiv(Clamp(f(3).v, 0, PC), 51, 20), al.v)
        ELSE NotColor
    ELSE
        IF u(1)[2] \notin {"", "deg"} \/ u(2)[2] # "%" \/ u(3)[2] # "%" THEN NotColor
        ELSE IF f(2).v < 0 \/ f(2).v > PC \/ f(3).v < 0 \/ f(3).v > PC THEN Outside
        ELSE LET c == HslToRgb(Mod(f(1).v, DG), f(2).v, f(3).v) IN Rgba(c.r, c.g, c.b, al.v)

Denotes(tok) ==
  LET s == Trim(tok) IN
  IF s = <<>> THEN NotColor
  ELSE IF s[1] = 35 THEN DenotesHex(Tail(s))
  ELSE IF \A i \in DOMAIN s : IsAlpha(s[i]) THEN DenotesName(s)
  ELSE LET open == IndexFrom(s, 40, 1) IN
       IF open > Len(s) \/ s[Len(s)] # 41 \/ open = 1 THEN NotColor
       ELSE LET name == LowerSeq(SubSeq(s, 1, open - 1))
                body == SubSeq(s, open + 1, Len(s) - 1)
                parts == SplitOn(body, 44)
                fields == [i \in DOMAIN parts |-> Trim(parts[i])] IN
            DenotesFunc(name, fields)

---------------------------------------------------------------------------
(* distance of a milli-unit value from the nearest integer channel value *)
FracDist(v) == LET m == Mod(v, 1000) IN Min2(m, 1000 - m)
RoundHalfUp(v) == ((v + 500) \div 1000) * 1000      \* v >= 0

=============================================================================
