SPECIFICATION Spec
CONSTANTS
  Leaves = {"1px", "2em", "3"}
  Ops = {"+", "*"}
  Tops = {"calc("}
  Fns = {"min(", "max("}
  MaxOps = 2
  MaxPar = 0
INVARIANTS LawParses LawPrintParse LawFaithfulSound LawNumber LawNumberNoFail Emit
CHECK_DEADLOCK FALSE
