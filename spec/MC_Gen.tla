------------------------------- MODULE MC_Gen -------------------------------
EXTENDS Gen, Json, IOUtils

CONSTANTS MaxMut,     \* number of mutation steps (mode "mutate")
          MinLen,     \* derivations shorter than this are not emitted
          Climb       \* while the nesting depth is below Climb no construct is closed (deep inputs)

VARIABLE nmut
vars == <<gvars, nmut>>

SoupAlphabet == {"a", "*", "&", ".c", "%p", "{", "}", "(", ")", "[", "]", ":", ";", ",", "$v", "1px", "#f00", "\"s\"", "'", "#{",
                 "+", "-", "/", "not", "!important", "@media", "@if", "@else", "@each", "@for", "@function", "@return", "@mixin",
                 "@include", "@content", "@at-root", "@import", "@use", "@extend", "@error", "url(", "calc(", "in", "x",
                 " ", "//", "/*", "\\", "<00>", "<80>", "<ff>", "<c3>"}

Corpus == IF Mode = "mutate" THEN ndJsonDeserialize(IOEnv.CORPUS) ELSE <<>>

Init == /\ stack = <<>> /\ done = FALSE /\ nmut = 0
        /\ IF Mode = "mutate" THEN \E i \in DOMAIN Corpus : toks = Corpus[i].toks
           ELSE toks = <<>>

Opens == {"{", "(", "[", "#{", "calc(", "url(", "\"", "/*"}

(* token-level mutations of a corpus input *)
Delete == \E i \in DOMAIN toks : toks' = SubSeq(toks, 1, i - 1) \o SubSeq(toks, i + 1, Len(toks))
Dup    == \E i \in DOMAIN toks : toks' = SubSeq(toks, 1, i) \o SubSeq(toks, i, Len(toks))
Swap   == \E i \in 1..(Len(toks) - 1) : toks' = [toks EXCEPT ![i] = toks[i + 1], ![i + 1] = toks[i]]
Splice == \E i \in DOMAIN toks, j \in DOMAIN toks : i < j /\ toks' = SubSeq(toks, 1, i) \o SubSeq(toks, j, Len(toks))
InsertOpen == \E i \in DOMAIN toks, o \in Opens \cup {"}", ")", "]", "&", "<80>", "<00>"} :
                 toks' = SubSeq(toks, 1, i) \o <<o>> \o SubSeq(toks, i + 1, Len(toks))
Mutate == /\ Mode = "mutate" /\ ~done /\ nmut < MaxMut /\ toks # <<>>
          /\ (Delete \/ Dup \/ Swap \/ Splice \/ InsertOpen)
          /\ nmut' = nmut + 1 /\ UNCHANGED <<stack, done>>

Closing == (Top = "block" /\ toks' = toks \o <<"}">>) \/ (Top \in {"paren", "call", "interp", "bracket"} /\ Len(stack') < Len(stack))
Next == \/ (SoupAdd /\ UNCHANGED nmut)
        \/ (Derive /\ (Depth < Climb => ~Closing) /\ UNCHANGED nmut)
        \/ Mutate
        \/ (Finish /\ (Mode = "mutate" => nmut >= 1) /\ (Mode = "derive" => Len(toks) >= MinLen) /\ UNCHANGED nmut)
Spec == Init /\ [][Next]_vars

EmitVec == done => PrintT(<<"VEC", ToJson([toks |-> toks, mode |-> Mode, depth |-> Depth])>>)
=============================================================================
