------------------------------- MODULE MC_Gen -------------------------------
EXTENDS Gen, Json, IOUtils

CONSTANTS MaxMut,     \* number of mutation steps (mode "mutate")
          MinLen,     \* derivations shorter than this are not emitted
          Climb       \* while the nesting depth is below Climb no construct is closed (deep inputs)

VARIABLE nmut
vars == <<gvars, nmut>>

SoupAlphabet == {"a", "*", "&", ".c", "%p", "{", "}", "(", ")", "[", "]", ":", ";", ",", "$v", "1px", "#f00", "\"s\"", "'", "#{",
                 "+", "-", "/", "not", "!important", "@media", "@if", "@else", "@each", "@for", "@function", "@return", "@mixin",
                 "@include", "@content", "@at-root", "@import", "@use", "@extend", "@error", "url(", "calc(", "in", "x",
                 " ", "//", "/*", "\\", "<00>", "<80>", "<ff>", "<c3>", "<cr>"}

(* Mode "repeat": long flat inputs - one unit repeated n times between a   *)
(* prefix and a suffix (nesting depth stays <= 2, size <= 64 KiB): chains of *)
(* operators, compounds, list items, statements.  Emitted in the compressed  *)
(* form [pre, unit, n, post]; the renderer repeats the unit.                 *)
Repeats == { [shape |-> "binop-chain",   pre |-> <<"a", "{", "b", ":", "1">>, unit |-> <<"+", "1">>,       post |-> <<"}">>],
             [shape |-> "minus-chain",   pre |-> <<"a", "{", "b", ":", "1">>, unit |-> <<" ", "-", " ", "1">>, post |-> <<"}">>],
             [shape |-> "and-chain",     pre |-> <<"a", "{", "b", ":", "true">>, unit |-> <<" ", "and", " ", "true">>, post |-> <<"}">>],
             [shape |-> "descendants",   pre |-> <<"a">>,                     unit |-> <<" ", "a">>,        post |-> <<"{", "b", ":", "c", "}">>],
             [shape |-> "selector-list", pre |-> <<"a">>,                     unit |-> <<",", "a">>,        post |-> <<"{", "b", ":", "c", "}">>],
             [shape |-> "compound",      pre |-> <<"a">>,                     unit |-> <<".c">>,            post |-> <<"{", "b", ":", "c", "}">>],
             [shape |-> "space-list",    pre |-> <<"a", "{", "b", ":", "1">>, unit |-> <<" ", "1">>,        post |-> <<"}">>],
             [shape |-> "comma-list",    pre |-> <<"a", "{", "b", ":", "1">>, unit |-> <<",", "1">>,        post |-> <<"}">>],
             [shape |-> "declarations",  pre |-> <<"a", "{">>,                unit |-> <<"b", ":", "c", ";">>, post |-> <<"}">>],
             [shape |-> "rules",         pre |-> <<>>,                        unit |-> <<"a", "{", "b", ":", "c", "}">>, post |-> <<>>],
             [shape |-> "unit-square",   pre |-> <<"$x", ":", "1px", ";">>,   unit |-> <<"$x", ":", "$x", "*", "$x", ";">>, post |-> <<"a", "{", "b", ":", "$x", "}">>],
             [shape |-> "unit-divide",   pre |-> <<"$x", ":", "1px", ";">>,   unit |-> <<"$x", ":", "1", "/", "$x", "/", "$x", ";">>, post |-> <<"a", "{", "b", ":", "$x", "}">>],
             [shape |-> "interp-string", pre |-> <<"a", "{", "b", ":", "\"">>, unit |-> <<"#{", "1", "}">>, post |-> <<"\"", "}">>],
             [shape |-> "concat",        pre |-> <<"a", "{", "b", ":", "x">>, unit |-> <<"+", "x">>,        post |-> <<"}">>],
             [shape |-> "media-list",    pre |-> <<"@media", " ", "a">>,      unit |-> <<",", "a">>,        post |-> <<"{", "b", "{", "c", ":", "d", "}", "}">>],
             (* bounds at the edge of i64: the loop itself stays short (an @for over 9e18 values is legitimately unbounded work, *)
             (* like `@while true`, and is not generated); the repeated unit only lengthens the lower bound with leading zeros   *)
             [shape |-> "for-range",     pre |-> <<"@for", " ", "$i", " ", "from", " ">>, unit |-> <<"0">>, post |-> <<"9223372036854775800", " ", "through", " ", "9223372036854775807", "{", "a", "{", "b", ":", "$i", "}", "}">>],
             [shape |-> "else-chain",    pre |-> <<"@if", " ", "false", "{", "}">>, unit |-> <<"@else", " ", "if", " ", "false", "{", "}">>, post |-> <<"@else", "{", "a", "{", "b", ":", "c", "}", "}">>] }
RepeatCounts == {7, 8, 19, 64, 128, 1000, 8000}

Corpus == IF Mode = "mutate" THEN ndJsonDeserialize(IOEnv.CORPUS) ELSE <<>>

Init == /\ stack = <<>> /\ done = FALSE /\ nmut = 0
        /\ IF Mode = "mutate" THEN \E i \in DOMAIN Corpus : toks = Corpus[i].toks
           ELSE toks = <<>>

Opens == {"{", "(", "[", "#{", "calc(", "url(", "\"", "/*"}

(* token-level mutations of a corpus input *)
Delete == \E i \in DOMAIN toks : toks' = SubSeq(toks, 1, i - 1) \o SubSeq(toks, i + 1, Len(toks))
Dup    == \E i \in DOMAIN toks : toks' = SubSeq(toks, 1, i) \o SubSeq(toks, i, Len(toks))
Swap   == \E i \in 1..(Len(toks) - 1) : toks' = [toks EXCEPT ![i] = toks[i + 1], ![i + 1] = toks[i]]
Splice == \E i \in DOMAIN toks, j \in DOMAIN toks : i < j /\ toks' = SubSeq(toks, 1, i) \o SubSeq(toks, j, Len(toks))
InsertOpen == \E i \in DOMAIN toks, o \in Opens \cup {"}", ")", "]", "&", "<80>", "<00>"} :
                 toks' = SubSeq(toks, 1, i) \o <<o>> \o SubSeq(toks, i + 1, Len(toks))
Mutate == /\ Mode = "mutate" /\ ~done /\ nmut < MaxMut /\ toks # <<>>
          /\ (Delete \/ Dup \/ Swap \/ Splice \/ InsertOpen)
          /\ nmut' = nmut + 1 /\ UNCHANGED <<stack, done>>

Closing == (Top = "block" /\ toks' = toks \o <<"}">>) \/ (Top \in {"paren", "call", "interp", "bracket"} /\ Len(stack') < Len(stack))
Next == \/ (SoupAdd /\ UNCHANGED nmut)
        \/ (Derive /\ (Depth < Climb => ~Closing) /\ UNCHANGED nmut)
        \/ Mutate
        \/ (Finish /\ (Mode = "mutate" => nmut >= 1) /\ (Mode = "derive" => Len(toks) >= MinLen) /\ UNCHANGED nmut)
Spec == Init /\ [][Next]_vars

EmitVec == (done /\ Mode # "repeat") => PrintT(<<"VEC", ToJson([toks |-> toks, mode |-> Mode, depth |-> Depth])>>)
EmitRepeat == (done /\ Mode = "repeat") =>
   \A r \in Repeats, n \in RepeatCounts :
      PrintT(<<"VEC", ToJson([mode |-> "repeat", shape |-> r.shape, pre |-> r.pre, unit |-> r.unit, n |-> n, post |-> r.post, depth |-> 2, toks |-> <<>>])>>)
=============================================================================
