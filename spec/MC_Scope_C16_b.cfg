SPECIFICATION Spec
CONSTANTS
  Vars = {"x", "y"}
  Flags = {"none", "default"}
  OpenKinds = {"rule", "if"}
  BoundKinds = {"for", "mixin"}
  MaxLen = 6
  MaxDepth = 2
  CheckDev = {}
  FreshOnly = FALSE
INVARIANTS LawsHold LawWellFormed Emit
CHECK_DEADLOCK FALSE
