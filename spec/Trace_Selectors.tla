-------------------------- MODULE Trace_Selectors --------------------------
(* Trace validation for the selector engine: every recorded compilation of  *)
(* a nest {toks, obs, devs, case} must be explained by Selectors!Observe -   *)
(* the ideal semantics, or a set of deviations listed as open findings      *)
(* (then it is reported).                                                   *)
EXTENDS Selectors, Json, IOUtils, TLCExt

Rec == ndJsonDeserialize(IOEnv.TRACE)

VARIABLE l
Init == l = 1

SeqToSet(s) == {s[i] : i \in DOMAIN s}

Explained(e) ==
  LET ideal == Observe(e.toks, {}) IN
  IF ideal.st = "undef" THEN TRUE           \* outside the specified domain
  ELSE IF e.obs = ideal THEN TRUE
  ELSE \E S \in (SUBSET (SeqToSet(e.devs) \cap AllDevs)) \ {{}} :
         /\ Observe(e.toks, S) = e.obs
         /\ \A d \in S : PrintT(<<"MSG", "KNOWN", d, e.case>>)

Next == /\ l <= Len(Rec)
        /\ Explained(Rec[l]) = TRUE
        /\ l' = l + 1
Spec == Init /\ [][Next]_l

Accepted == IF TLCGet("stats").diameter - 1 = Len(Rec) THEN TRUE
            ELSE PrintT(<<"UNMATCHED", TLCGet("stats").diameter>>) /\ FALSE
=============================================================================
