SPECIFICATION Spec
CONSTANTS
  Pool = {1,4,6,9,12}
  MaxStmts = 2
  MaxRw = 2
  Kinds = {"InsertCmt", "RenameVar", "RenameFn", "RenameMixin", "SwapSep", "Hoist", "InsertDebug", "MoveToPartial"}
  Unguarded = FALSE
INVARIANTS InvPreserved InvShape Emit
CHECK_DEADLOCK FALSE
