SPECIFICATION Spec
CONSTANTS
  Operands = {"true", "false", "null", "0", "1", "str_empty", "str_x", "()", "(1 2)", "(a: 1)", "red", "fx()", "ferr()"}
  Ops = {"and", "or"}
  Uns = {"not"}
  MaxOps = 1
  MaxUn = 1
  MaxPar = 0
INVARIANTS LawParenStable LawWellShaped LawTotal Emit
CHECK_DEADLOCK FALSE
