SPECIFICATION Spec
CONSTANTS
  Keys = {"1", "1.0", "sa", "a", "#f00", "red"}
  Keys3 = {"1.0", "sa", "red"}
  MaxOps = 3
INVARIANTS InvKeysUnique Emit
CHECK_DEADLOCK FALSE
