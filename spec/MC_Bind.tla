------------------------------ MODULE MC_Bind ------------------------------
(* Bounded-exhaustive generator of signatures x call shapes (kind "bind")  *)
(* and of function bodies with several @return (kind "ret"); the           *)
(* declarative laws as invariants; one conformance vector per input.       *)
EXTENDS Bind, Json

CONSTANTS Kind,            \* "bind" | "ret"
          CtxSet,          \* mixin, function, content
          MaxParams, DefSet, RestSet,
          MaxPos, NamedPool, MaxNamed, MapPool, MaxMap, PSplats,
          ItemSet, MaxItems

VARIABLES inp, phase
vars == <<inp, phase>>

PoolOrder == <<"a", "b-x", "b_x", "c", "d", "r", "y", "z">>
InSet(S) == LET Test(s) == s \in S IN SelectSeq(PoolOrder, Test)

Init == inp = [kind |-> "none"] /\ phase = "start"

BindStart == /\ Kind = "bind" /\ phase = "start"
             /\ \E c \in CtxSet : inp' = [kind |-> "bind", ctx |-> c, defs |-> <<>>, rest |-> 0, npos |-> 0,
                                          named |-> <<>>, mnamed |-> <<>>, psplat |-> "none"]
             /\ phase' = "defs"
AddParam == /\ Kind = "bind" /\ phase = "defs" /\ Len(inp.defs) < MaxParams
            /\ \E d \in DefSet :
                 /\ (d = "ref1" => Len(inp.defs) >= 1) /\ (d = "ref2" => Len(inp.defs) >= 2) /\ (d = "ref3" => Len(inp.defs) >= 3)
                 /\ inp' = [inp EXCEPT !.defs = Append(@, d)]
            /\ UNCHANGED phase
EndDefs == /\ Kind = "bind" /\ phase = "defs"
           /\ \E r \in RestSet : inp' = [inp EXCEPT !.rest = r]
           /\ phase' = "call"
Call == /\ Kind = "bind" /\ phase = "call"
        /\ \E np \in 0..MaxPos, S \in SUBSET NamedPool, M \in SUBSET MapPool, ps \in PSplats :
             /\ Cardinality(S) <= MaxNamed /\ Cardinality(M) <= MaxMap
             /\ (ps = "all" => np >= 1) /\ (ps = "tail" => np >= 2)
             /\ inp' = [inp EXCEPT !.npos = np, !.named = InSet(S), !.mnamed = InSet(M), !.psplat = ps]
        /\ phase' = "done"

RetStart == /\ Kind = "ret" /\ phase = "start"
            /\ inp' = [kind |-> "ret", ctx |-> "function", items |-> <<>>]
            /\ phase' = "items"
AddItem == /\ Kind = "ret" /\ phase = "items" /\ Len(inp.items) < MaxItems
           /\ \E it \in ItemSet : inp' = [inp EXCEPT !.items = Append(@, it)]
           /\ UNCHANGED phase
EndItems == /\ Kind = "ret" /\ phase = "items"
            /\ phase' = "done" /\ UNCHANGED inp

Next == BindStart \/ AddParam \/ EndDefs \/ Call \/ RetStart \/ AddItem \/ EndItems
Spec == Init /\ [][Next]_vars

Done == phase = "done"

LawHolds == Done => Law(inp)
LawWellFormed == Done => WellFormed(inp)

Emit == Done =>
  LET e == Ideal(inp) IN
  (e.k # "undef") => PrintT(<<"VEC", ToJson([inp |-> inp, expect |-> e, dev |-> DevMap(inp), adm |-> AdmSeq(inp)])>>)
=============================================================================
