SPECIFICATION Spec
CONSTANTS
  Ops = {"+", "-", "<", "<=", ">", ">=", "==", "*", "div"}
  UnitsA <- AllUnits
  UnitsB <- AllUnits
  Mags <- Mags_q
INVARIANTS Table Laws Emit
CHECK_DEADLOCK FALSE
