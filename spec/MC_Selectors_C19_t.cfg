SPECIFICATION Spec
CONSTANTS
  Simples = {"a", ".c"}
  Sfx = {"-x"}
  Combs = {"sp", ">", "+"}
  LeadCombs = {">"}
  Fns = {":not("}
  MaxLevels = 3
  MaxList = 2
  MaxArgList = 2
  MaxComps = 2
  MaxSimp = 2
  MaxTotal = 5
  MaxFn = 1
  MaxDepth = 1
  Amp = {"top", "arg"}
  MaxAmp = 2
INVARIANTS InvLaws Emit
CHECK_DEADLOCK FALSE
