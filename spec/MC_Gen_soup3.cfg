SPECIFICATION Spec
CONSTANTS
  Mode = "soup"
  MaxLen = 3
  MaxDepth = 64
  MaxMut = 0
  MinLen = 0
  Climb = 0
  Alphabet <- SoupAlphabet
INVARIANTS DepthOk EmitVec
CHECK_DEADLOCK FALSE
