SPECIFICATION Spec
CONSTANTS
  MaxLen = 6
  StepMode = FALSE
  DeclSet = {"strna", "list", "urlq"}
  CpropSet = {"nl"}
  CmtSet = {"multi"}
  RuleSet = {"asc", "na"}
  AtAttr = {"-"}
  Extra = {}
INVARIANT DesignAccepted
INVARIANT EmitVec
CHECK_DEADLOCK FALSE
