---------------------------- MODULE Trace_Resolve ----------------------------
(* Trace validation for URL resolution: every recorded load               *)
(* {kind, where, present:[{loc,idx}], obs:{k,loc,idx}, devs, case} must be *)
(* the winner Resolve!Winner names - under the ideal search, or under a    *)
(* set of deviations that are open findings (then reported).               *)
EXTENDS Resolve, Json, IOUtils, TLCExt

Rec == ndJsonDeserialize(IOEnv.TRACE)
VARIABLE l
Init == l = 1
SeqToSet(s) == {s[i] : i \in DOMAIN s}
Present(e) == {<<e.present[i].loc, e.present[i].idx>> : i \in DOMAIN e.present}

Explained(e) ==
  LET ideal == Winner(e.kind, e.where, Present(e), {}) IN
  IF e.obs = ideal THEN TRUE
  ELSE \E S \in (SUBSET SeqToSet(e.devs)) \ {{}} :
         /\ e.obs = Winner(e.kind, e.where, Present(e), S)
         /\ PrintT(<<"MSG", "KNOWN", S, e.case>>)

Next == /\ l <= Len(Rec)
        /\ Explained(Rec[l]) = TRUE
        /\ l' = l + 1
Spec == Init /\ [][Next]_l
Accepted == IF TLCGet("stats").diameter - 1 = Len(Rec) THEN TRUE
            ELSE PrintT(<<"UNMATCHED", TLCGet("stats").diameter>>) /\ FALSE
=============================================================================
