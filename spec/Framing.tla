------------------------------ MODULE Framing ------------------------------
(* C07 - output is well framed and correctly encoded.                        *)
(*                                                                           *)
(* An AUTOMATON over the token classes of a CSS output byte stream.  A token  *)
(* is a record [c |-> class, f |-> flags]; flags is a bit set                 *)
(*    1 = the token contains non-ASCII text                                   *)
(*    2 = the token contains a line break                                     *)
(*    4 = the token is not terminated (string / comment / url( / custom       *)
(*        property value running into the end of the output or, for a string, *)
(*        into a raw line break)                                              *)
(*    8 = (comment) it is a preserved comment  /*! ... */                      *)
(* The observer (engines/csstok.py) only splits bytes into these classes; it  *)
(* decides nothing.  The property's clauses are the acceptance condition:     *)
(*   F1  the output is empty or ends with exactly one newline;                *)
(*   F2  braces, brackets and parentheses balance (properly nested) outside   *)
(*       strings, comments, url() and custom-property values;                 *)
(*   F3  non-ASCII text <=> an encoding marker starts the output, and the     *)
(*       marker is `@charset "UTF-8";` in expanded and a BOM in compressed    *)
(*       style (the design's reading: the marker is there exactly when it is  *)
(*       needed);                                                             *)
(*   F4  compressed: no line break other than the final one, outside custom-  *)
(*       property values (and inside a preserved comment /*! .. */, whose text *)
(*       is the author's and is copied verbatim wherever a style keeps it);    *)
(*   F5  the bytes are UTF-8 and every string/comment/url( is terminated      *)
(*       (otherwise "outside strings" has no meaning).                        *)
EXTENDS Integers, Sequences

Classes == {"open", "close", "lbrack", "rbrack", "lparen", "rparen", "string", "comment", "url",
            "customprop_value", "newline", "nonascii", "charset_mark", "bom", "other", "badenc",
            "semicolon", "at_keyword"}     \* the last two only delimit at-rule preludes (scope of a deviation)
Styles == {"expanded", "compressed"}

HasNA(t) == t.f % 2 = 1
HasNL(t) == (t.f \div 2) % 2 = 1
Unterm(t) == (t.f \div 4) % 2 = 1
Loud(t) == (t.f \div 8) % 2 = 1

Tok(c, f) == [c |-> c, f |-> f]

(* ---- state -------------------------------------------------------------- *)
(* n      tokens consumed, capped at 2 (0 = nothing yet)                      *)
(* stack  the open brackets, innermost last: sequence over "{", "[", "("      *)
(* na     1 iff non-ASCII text was seen (the marker itself does not count)    *)
(* marker "none" | "charset" | "bom"                                          *)
(* tnl    number of newline tokens the stream currently ends with, capped 2   *)
(* midnl  1 iff a newline token was followed by something (not the final one) *)
(* innl   1 iff a comment / url() / string (escaped line continuation)        *)
(*        contained a line break                                              *)
(* inat   1 iff inside an at-rule prelude: after an at-keyword, before the     *)
(*        next `{`, `}` or `;`                                                 *)
(* bad    "ok" or the first framing error (absorbing)                         *)
Start == [n |-> 0, stack |-> <<>>, na |-> 0, marker |-> "none", tnl |-> 0, midnl |-> 0, innl |-> 0, inat |-> 0, bad |-> "ok"]

(* ---- named deviations (what the pinned tree does instead; open findings) ---- *)
(* "atrule_prelude_newline": a line break of the SOURCE inside the prelude of an *)
(*   at-rule (@supports, unknown at-rules) is copied to the output, in compressed *)
(*   style too.  Scope: newline tokens followed by more text while inat = 1; under  *)
(*   the deviation they do not count.  A newline anywhere else is still a          *)
(*   violation.                                                                   *)
(* "unterminated_comment_accepted": a `/*` without `*/` inside a declaration value  *)
(*   is not a syntax error; the rest of the value is copied, so the output ends     *)
(*   inside a comment.  Scope (Trace_Framing): the SOURCE has an unterminated       *)
(*   comment and the automaton's verdict is "unterminated".                         *)
Deviations == {"atrule_prelude_newline", "unterminated_comment_accepted"}

(* flag 8 on a SOURCE token: the token carries bracket / quote characters or a       *)
(* comment opener as data (inside a quoted string, or escaped): unquoting or         *)
(* interpolating it puts unbalanced text into the output on the user's request       *)
Carries(t) == (t.f \div 8) % 2 = 1
BalanceVerdicts == {"unbalanced", "close_without_open", "close_mismatch", "unterminated"}

Opener(c) == IF c = "open" THEN "{" ELSE IF c = "lbrack" THEN "[" ELSE "("
Closes(c) == IF c = "close" THEN "{" ELSE IF c = "rbrack" THEN "[" ELSE "("
Min2(a, b) == IF a < b THEN a ELSE b

StepD(s, t, Dev) ==
  IF s.bad # "ok" THEN s
  ELSE
    LET c  == t.c
        \* bookkeeping common to every token that is not a newline
        s1 == [s EXCEPT !.n = Min2(2, s.n + 1),
                        !.midnl = IF s.tnl > 0 /\ ~(s.inat = 1 /\ "atrule_prelude_newline" \in Dev) THEN 1 ELSE s.midnl,
                        !.tnl = 0,
                        !.na = IF HasNA(t) THEN 1 ELSE s.na,
                        !.inat = IF c = "at_keyword" THEN 1
                                 ELSE IF c \in {"open", "close", "semicolon"} THEN 0 ELSE s.inat]
    IN
    IF c \notin Classes THEN [s EXCEPT !.bad = "unknown_class"]
    ELSE IF c = "badenc" THEN [s EXCEPT !.bad = "encoding"]
    ELSE IF c \in {"charset_mark", "bom"} THEN
         IF s.n # 0 THEN [s EXCEPT !.bad = "marker_not_first"]
         ELSE [s EXCEPT !.n = 1, !.marker = IF c = "bom" THEN "bom" ELSE "charset"]
    ELSE IF c = "newline" THEN
         [s EXCEPT !.n = Min2(2, s.n + 1), !.tnl = Min2(2, s.tnl + 1)]
    ELSE IF c \in {"open", "lbrack", "lparen"} THEN
         [s1 EXCEPT !.stack = Append(s.stack, Opener(c))]
    ELSE IF c \in {"close", "rbrack", "rparen"} THEN
         IF s.stack = <<>> THEN [s1 EXCEPT !.bad = "close_without_open"]
         ELSE IF s.stack[Len(s.stack)] # Closes(c) THEN [s1 EXCEPT !.bad = "close_mismatch"]
         ELSE [s1 EXCEPT !.stack = SubSeq(s.stack, 1, Len(s.stack) - 1)]
    ELSE IF c \in {"string", "comment", "url", "customprop_value"} THEN
         IF Unterm(t) THEN [s1 EXCEPT !.bad = "unterminated"]
         ELSE IF c \in {"string", "comment", "url"} /\ HasNL(t) /\ ~(c = "comment" /\ Loud(t)) THEN [s1 EXCEPT !.innl = 1]
         ELSE s1
    ELSE s1     \* "other", "nonascii" (flag 1 set by the observer), "semicolon", "at_keyword"

Step(s, t) == StepD(s, t, {})

(* ---- acceptance = the property ---------------------------------------------- *)
F1(s) == s.n = 0 \/ s.tnl = 1
F2(s) == s.stack = <<>>
F3(style, s) == /\ (s.na = 1) <=> (s.marker # "none")
                /\ s.marker \in {"none", IF style = "compressed" THEN "bom" ELSE "charset"}
F4(style, s) == style = "compressed" => (s.midnl = 0 /\ s.innl = 0)
F5(s) == s.bad = "ok"

Accept(style, s) == F5(s) /\ F1(s) /\ F2(s) /\ F3(style, s) /\ F4(style, s)

(* which clause fails first (for messages) *)
Why(style, s) == IF ~F5(s) THEN s.bad ELSE IF ~F1(s) THEN "final_newline" ELSE IF ~F2(s) THEN "unbalanced"
                 ELSE IF ~F3(style, s) THEN "marker" ELSE IF ~F4(style, s) THEN "newline_in_compressed" ELSE "ok"

RECURSIVE RunFrom(_, _, _, _)
RunFrom(s, toks, i, Dev) == IF i > Len(toks) THEN s ELSE RunFrom(StepD(s, toks[i], Dev), toks, i + 1, Dev)
RunD(toks, Dev) == RunFrom(Start, toks, 1, Dev)
Run(toks) == RunD(toks, {})

Accepts(style, toks) == Accept(style, Run(toks))

(* ======================================================================== *)
(* The abstract writer: what the design (CssBuf start_block / end_block /   *)
(* add_one, Item::Separator, CssData::into_buffer) emits for an output tree *)
(* given as a flat program of statements [k, a]:                            *)
(*   rule  a: "asc" | "na"      style rule (selector ASCII / non-ASCII)      *)
(*   media a: "-" | "na"        @media block (query ASCII / non-ASCII)       *)
(*   atb   a: "-" | "na" | "name"   unknown at-rule with a block (non-ASCII  *)
(*                              text in its prelude / in its NAME)           *)
(*   sup   a: "-" | "na"        @supports block (condition)                  *)
(*   kf    a: "-" | "na"        @keyframes block (name)                      *)
(*   kfs   a: "asc" | "na"      keyframe selector block inside @keyframes    *)
(*   imp   a: "-" | "na"        @import url(..) statement                    *)
(*   decl  a: value kind        declaration; "pna": non-ASCII property NAME  *)
(*   cprop a: "plain" | "nl" | "na"   custom property                        *)
(*   cmt   a: "one" | "multi" | "na"  comment                                *)
(*   ats   a: "-" | "na" | "name"   body-less at-rule statement              *)
(* so that a non-ASCII character can sit in every position class of the      *)
(* output: selector, property name, value, custom property, comment, @import *)
(* url, at-rule name, at-rule prelude, @media query, @supports condition,    *)
(* @keyframes name, keyframe selector.                                       *)
(*   close                                                                   *)
(* Only newline positions and token classes matter, not spacing.            *)
DeclKinds == {"id", "str", "strna", "url", "urlna", "urlq", "list", "call", "idna", "pna"}
BlockKinds == {"rule", "media", "atb", "sup", "kf", "kfs"}
KeptEmpty == {"atb", "sup", "kf"}          \* at-rules that are written also with an empty block

ValueToks(a) ==
  CASE a = "id"    -> <<Tok("other", 0)>>
    [] a = "idna"  -> <<Tok("nonascii", 1)>>
    [] a = "str"   -> <<Tok("string", 0)>>
    [] a = "strna" -> <<Tok("string", 1)>>
    [] a = "url"   -> <<Tok("url", 0)>>
    [] a = "urlna" -> <<Tok("url", 1)>>
    [] a = "urlq"  -> <<Tok("other", 0), Tok("lparen", 0), Tok("string", 0), Tok("rparen", 0)>>
    [] a = "list"  -> <<Tok("lbrack", 0), Tok("other", 0), Tok("rbrack", 0)>>
    [] a = "call"  -> <<Tok("other", 0), Tok("lparen", 0), Tok("other", 0), Tok("rparen", 0)>>
    [] a = "pna"   -> <<Tok("other", 0)>>

CpropTok(a) == Tok("customprop_value", IF a = "nl" THEN 2 ELSE IF a = "na" THEN 1 ELSE 0)
CmtTok(a)   == Tok("comment", IF a = "multi" THEN 2 ELSE IF a = "na" THEN 1 ELSE 0)
O == Tok("other", 0)
NL == Tok("newline", 0)
SC == Tok("semicolon", 0)
AT == Tok("at_keyword", 0)

(* index of the close matching the open at i *)
RECURSIVE MatchFrom(_, _, _)
MatchFrom(prog, i, d) ==
  IF i > Len(prog) THEN i
  ELSE IF prog[i].k \in BlockKinds THEN MatchFrom(prog, i + 1, d + 1)
  ELSE IF prog[i].k = "close" THEN (IF d = 1 THEN i ELSE MatchFrom(prog, i + 1, d - 1))
  ELSE MatchFrom(prog, i + 1, d)
Match(prog, i) == MatchFrom(prog, i + 1, 1)

(* does the range lo..hi print anything?  (empty rules and @media are not written;  *)
(* in compressed style comments are not written either)                            *)
RECURSIVE Prints(_, _, _, _)
Prints(style, prog, lo, hi) ==
  IF lo > hi THEN FALSE
  ELSE LET st == prog[lo] IN
    IF st.k \in BlockKinds \ KeptEmpty THEN
         LET m == Match(prog, lo) IN Prints(style, prog, lo + 1, m - 1) \/ Prints(style, prog, m + 1, hi)
    ELSE IF st.k \in KeptEmpty THEN TRUE
    ELSE IF st.k = "cmt" /\ style = "compressed" THEN Prints(style, prog, lo + 1, hi)
    ELSE TRUE

(* the token sequence of the statements lo..hi; top = 1 at the top level (items are  *)
(* separated by a blank line in expanded style)                                     *)
RECURSIVE Emit(_, _, _, _, _)
Emit(style, prog, lo, hi, top) ==
  IF lo > hi THEN <<>>
  ELSE
    LET st  == prog[lo]
        exp == style = "expanded"
        blk == st.k \in BlockKinds
        NA  == Tok("nonascii", 1)
        atk == Tok("at_keyword", IF st.a = "name" THEN 1 ELSE 0)
        pre == IF st.a = "na" THEN (IF st.k = "sup" THEN <<O, Tok("lparen", 0), O, Tok("string", 1), Tok("rparen", 0)>>
                                    ELSE IF st.k = "imp" THEN <<O, Tok("url", 1)>> ELSE <<O, NA>>)
               ELSE IF st.k = "imp" THEN <<O, Tok("url", 0)>> ELSE <<O>>
        m   == IF blk THEN Match(prog, lo) ELSE lo
        sep == IF exp /\ top = 1 /\ Prints(style, prog, m + 1, hi) THEN <<NL>> ELSE <<>>
        head == IF st.k \in {"rule", "kfs"} THEN (IF st.a = "na" THEN <<NA>> ELSE <<O>>) ELSE <<atk>> \o pre
        body == IF blk THEN Emit(style, prog, lo + 1, m - 1, 0) ELSE <<>>
        this ==
          IF blk THEN
             IF st.k \notin KeptEmpty /\ ~Prints(style, prog, lo + 1, m - 1) THEN <<>>
             ELSE IF exp THEN
                  (IF body = <<>> THEN head \o <<O, Tok("open", 0), Tok("close", 0), NL>>
                   ELSE head \o <<O, Tok("open", 0), NL>> \o body \o <<Tok("close", 0), NL>>)
             ELSE head \o <<Tok("open", 0)>> \o body \o <<Tok("close", 0)>>
          ELSE IF st.k = "decl" THEN (IF st.a = "pna" THEN <<NA, O>> ELSE <<O>>) \o ValueToks(st.a) \o <<SC>> \o (IF exp THEN <<NL>> ELSE <<>>)
          ELSE IF st.k = "cprop" THEN <<O, CpropTok(st.a), SC>> \o (IF exp THEN <<NL>> ELSE <<>>)
          ELSE IF st.k = "cmt" THEN (IF exp THEN <<CmtTok(st.a), NL>> ELSE <<>>)
          ELSE IF st.k \in {"ats", "imp"} THEN <<atk>> \o pre \o <<SC>> \o (IF exp THEN <<NL>> ELSE <<>>)
          ELSE <<>>
    IN this \o (IF this = <<>> THEN <<>> ELSE sep) \o Emit(style, prog, m + 1, hi, top)

AnyNA(toks) == \E i \in DOMAIN toks : HasNA(toks[i])

RECURSIVE TrimNL(_)
TrimNL(toks) == IF toks # <<>> /\ toks[Len(toks)].c = "newline" THEN TrimNL(SubSeq(toks, 1, Len(toks) - 1)) ELSE toks

(* CssData::into_buffer: marker iff not ASCII, trailing newlines trimmed, one newline unless empty *)
Write(style, prog) ==
  LET body == Emit(style, prog, 1, Len(prog), 1)
      mark == IF ~AnyNA(body) THEN <<>>
              ELSE IF style = "compressed" THEN <<Tok("bom", 0)>> ELSE <<Tok("charset_mark", 0), NL>>
      t    == TrimNL(mark \o body)
  IN IF t = <<>> THEN <<>> ELSE Append(t, NL)
=============================================================================
