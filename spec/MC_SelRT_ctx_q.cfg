SPECIFICATION Spec
CONSTANTS
  Mode = "ctx"
  MaxLen = 2
  Kinds = {"raw", "bs", "hex", "hex6"}
INVARIANTS SpecRoundTrip Emit
CHECK_DEADLOCK FALSE
