SPECIFICATION Spec
CONSTANTS
  MaxTriv = 1
INVARIANTS InvTrivOK InvIds Emit
CHECK_DEADLOCK FALSE
