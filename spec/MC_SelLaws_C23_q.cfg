SPECIFICATION Spec
CONSTANTS
  Mode = "c23"
  Tier = "quick"
  RefN = 40
INVARIANTS RefLawsHold NeverRejects FinalTable Emit
CHECK_DEADLOCK FALSE
