----------------------------- MODULE Trace_Calc -----------------------------
(* Trace validation for C30: every recorded event                             *)
(*   {toks: the calculation (token strings), st: "ok"|"err"|..., out: tokens   *)
(*    of the emitted value, devs, case}                                         *)
(* must pass Calc!Checks, or every failing check must be covered by a deviation *)
(* listed as an open finding whose model predicts the emitted value.            *)
EXTENDS Calc, Json, IOUtils, TLCExt

Rec == ndJsonDeserialize(IOEnv.TRACE)

VARIABLE l
Init == l = 1

SeqToSet(s) == {s[i] : i \in DOMAIN s}
Lenient == "LENIENT" \in DOMAIN IOEnv

Explained(e) ==
  LET inT == InToks(e.toks)
      fails == Checks(inT, e.st, e.out) IN
  IF fails = {} THEN TRUE
  ELSE LET devs == SeqToSet(e.devs)
           used == {d \in devs : Covers(d, inT, e.st, e.out) \cap fails # {}}
           left == fails \ UNION {Covers(d, inT, e.st, e.out) : d \in used} IN
       IF left = {}
       THEN \A d \in used : PrintT(<<"MSG", "KNOWN", d, e.case>>)
       ELSE PrintT(<<"MSG", ToJson([unexplained |-> e.case, checks |-> left])>>) /\ Lenient

Next == /\ l <= Len(Rec)
        /\ Explained(Rec[l]) = TRUE
        /\ l' = l + 1
Spec == Init /\ [][Next]_l

Accepted == IF TLCGet("stats").diameter - 1 = Len(Rec) THEN TRUE
            ELSE PrintT(<<"UNMATCHED", TLCGet("stats").diameter>>) /\ FALSE
=============================================================================
