SPECIFICATION Spec
CONSTANTS
  Kind = "ret"
  CtxSet = {"function"}
  MaxParams = 0
  DefSet = {}
  RestSet = {}
  MaxPos = 0
  NamedPool = {}
  MaxNamed = 0
  MapPool = {}
  MaxMap = 0
  PSplats = {}
  ItemSet = {"ret", "ift", "iff", "each0", "each1", "each2", "each3", "while"}
  MaxItems = 4
INVARIANTS LawHolds LawWellFormed Emit
CHECK_DEADLOCK FALSE
