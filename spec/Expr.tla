------------------------------- MODULE Expr -------------------------------
(***************************************************************************)
(* SassScript expressions over a flat token sequence: the grammar           *)
(* (precedence climbing), the evaluation rules for arithmetic, relational,  *)
(* equality, `and`/`or`/`not` with Sass truthiness and lazy right operands, *)
(* and an effect log that makes laziness observable.                        *)
(*                                                                         *)
(* Abstracts rsass/src/parser/value.rs (single_expression /                *)
(* logic_expression / sum_expression / term_value / unary_op),             *)
(* sass::BinOp::eval and sass::Value::do_evaluate.                          *)
(*                                                                         *)
(* Named deviations (what the pinned tree does instead of Sass):            *)
(*   andor_same_level   `and`/`or` share one right-recursive level          *)
(*   eqrel_same_level   == != share the level of < <= > >=                  *)
(*   not_only_bool_num  `not` is only evaluated on booleans and numbers      *)
(*   not_zero_true      `not 0` is true (numbers treated like C booleans)    *)
(*   paren_null_kept    a parenthesised expression whose value is null is    *)
(*                      kept as a truthy value `(null)`                      *)
(***************************************************************************)
EXTENDS Integers, Sequences, FiniteSets, TLC

BinOps  == {"*", "%", "+", "-", "<", "<=", ">", ">=", "==", "!=", "and", "or"}
UnOps   == {"not", "neg"}

(* values: [k |-> kind, v |-> int]                                          *)
(*   k = "n" number (v int), "b" boolean (v 1/0), "null", "err" a raised    *)
(*   error, "undef" outside the specified domain (ill-typed, modulo by      *)
(*   zero); any other kind is an opaque truthy value named by its token.    *)
Num(i)   == [k |-> "n", v |-> i]
Bool(b)  == [k |-> "b", v |-> IF b THEN 1 ELSE 0]
Null     == [k |-> "null", v |-> 0]
Opaque(t)== [k |-> t, v |-> 0]        \* an opaque truthy value: its kind is its token
Err      == [k |-> "err", v |-> 0]
Undef    == [k |-> "undef", v |-> 0]

IsNumTok(t) == t \in {"0", "1", "2", "3"}
NumOf(t) == CASE t = "0" -> 0 [] t = "1" -> 1 [] t = "2" -> 2 [] t = "3" -> 3

(* operand tokens whose evaluation has an effect or raises *)
IsThunk(t) == t \in {"fx()", "ferr()"}

OperandVal(t) ==
  CASE IsNumTok(t)  -> Num(NumOf(t))
    [] t = "true"   -> Bool(TRUE)
    [] t = "false"  -> Bool(FALSE)
    [] t = "null"   -> Null
    [] t = "fx()"   -> Bool(TRUE)      \* fx() returns true after recording its call
    [] t = "ferr()" -> Err
    [] OTHER        -> Opaque(t)

Truthy(v) == ~(v.k = "null" \/ (v.k = "b" /\ v.v = 0))

---------------------------------------------------------------------------
(* Grammar.  Dev is the set of deviation names switched on.                 *)

Prec(op, Dev) ==
  CASE op \in {"*", "%"}             -> 6
    [] op \in {"+", "-"}             -> 5
    [] op \in {"<", "<=", ">", ">="} -> 4
    [] op \in {"==", "!="}           -> IF "eqrel_same_level" \in Dev THEN 4 ELSE 3
    [] op = "and"                    -> IF "andor_same_level" \in Dev THEN 1 ELSE 2
    [] op = "or"                     -> 1

RightAssoc(p, Dev) == p = 1 /\ "andor_same_level" \in Dev

(* AST nodes: [t |-> "lit", tok], [t |-> "un", op, a], [t |-> "bin", op, a, b] *)
RECURSIVE ParseExpr(_, _, _, _), ParseLoop(_, _, _, _, _), ParsePrimary(_, _, _)

ParsePrimary(toks, pos, Dev) ==
  LET t == toks[pos] IN
  IF t = "(" THEN
      LET inner == ParseExpr(toks, pos + 1, 1, Dev) IN
      \* inner[2] is the position of the matching ")"
      <<[t |-> "par", a |-> inner[1]], inner[2] + 1>>
  ELSE IF t \in UnOps THEN
      LET arg == ParsePrimary(toks, pos + 1, Dev) IN
      <<[t |-> "un", op |-> t, a |-> arg[1]], arg[2]>>
  ELSE <<[t |-> "lit", tok |-> t], pos + 1>>

ParseLoop(toks, left, pos, minPrec, Dev) ==
  IF pos > Len(toks) \/ toks[pos] \notin BinOps THEN <<left, pos>>
  ELSE LET op == toks[pos]
           p  == Prec(op, Dev) IN
       IF p < minPrec THEN <<left, pos>>
       ELSE LET rhs == ParseExpr(toks, pos + 1, IF RightAssoc(p, Dev) THEN p ELSE p + 1, Dev) IN
            ParseLoop(toks, [t |-> "bin", op |-> op, a |-> left, b |-> rhs[1]], rhs[2], minPrec, Dev)

ParseExpr(toks, pos, minPrec, Dev) ==
  LET lhs == ParsePrimary(toks, pos, Dev) IN
  ParseLoop(toks, lhs[1], lhs[2], minPrec, Dev)

Parse(toks, Dev) == ParseExpr(toks, 1, 1, Dev)[1]

---------------------------------------------------------------------------
(* Evaluation.  Result: [val |-> value, fx |-> number of fx() calls made]   *)

SassMod(a, b) == IF b > 0 THEN a % b ELSE -((-a) % (-b))

Arith(op, x, y) ==
  IF x.k # "n" \/ y.k # "n" THEN Undef
  ELSE CASE op = "+" -> Num(x.v + y.v)
         [] op = "-" -> Num(x.v - y.v)
         [] op = "*" -> Num(x.v * y.v)
         [] op = "%" -> IF y.v = 0 THEN Undef ELSE Num(SassMod(x.v, y.v))

Rel(op, x, y) ==
  IF x.k # "n" \/ y.k # "n" THEN Undef
  ELSE CASE op = "<"  -> Bool(x.v < y.v)
         [] op = "<=" -> Bool(x.v <= y.v)
         [] op = ">"  -> Bool(x.v > y.v)
         [] op = ">=" -> Bool(x.v >= y.v)

(* equality is only specified here between numbers, booleans and null;     *)
(* opaque values are compared by identity of kind only when kinds differ   *)
IsOpaque(x) == x.k \notin {"n", "b", "null", "err", "undef"}
SameVal(x, y) ==
  IF IsOpaque(x) \/ IsOpaque(y) THEN (IF IsOpaque(x) /\ IsOpaque(y) THEN Undef ELSE Bool(FALSE))
  ELSE Bool(x.k = y.k /\ x.v = y.v)

Not(v, Dev) ==
  IF v.k = "n" /\ "not_zero_true" \in Dev THEN Bool(v.v = 0)
  ELSE IF "not_only_bool_num" \in Dev /\ v.k \notin {"b", "n"} THEN Undef
  ELSE Bool(~Truthy(v))

RECURSIVE Eval(_, _)
Eval(ast, Dev) ==
  CASE ast.t = "lit" -> [val |-> OperandVal(ast.tok), fx |-> IF ast.tok = "fx()" THEN 1 ELSE 0]
    [] ast.t = "par" ->
         LET a == Eval(ast.a, Dev) IN
         IF "paren_null_kept" \in Dev /\ a.val = Null
         THEN [val |-> Opaque("(null)"), fx |-> a.fx]     \* a truthy `(null)` value
         ELSE a
    [] ast.t = "un"  ->
         LET a == Eval(ast.a, Dev) IN
         IF a.val.k \in {"err", "undef"} THEN a
         ELSE IF ast.op = "not" THEN [val |-> Not(a.val, Dev), fx |-> a.fx]
         ELSE IF a.val.k = "n" THEN [val |-> Num(-a.val.v), fx |-> a.fx]
         ELSE [val |-> Undef, fx |-> a.fx]
    [] ast.t = "bin" ->
         LET a == Eval(ast.a, Dev) IN
         IF a.val.k \in {"err", "undef"} THEN a
         ELSE IF ast.op = "and" THEN
              (IF Truthy(a.val)
               THEN LET b == Eval(ast.b, Dev) IN [val |-> b.val, fx |-> a.fx + b.fx]
               ELSE a)
         ELSE IF ast.op = "or" THEN
              (IF Truthy(a.val)
               THEN a
               ELSE LET b == Eval(ast.b, Dev) IN [val |-> b.val, fx |-> a.fx + b.fx])
         ELSE LET b == Eval(ast.b, Dev) IN
              IF b.val.k \in {"err", "undef"} THEN [val |-> b.val, fx |-> a.fx + b.fx]
              ELSE [val |-> (CASE ast.op \in {"+", "-", "*", "%"} -> Arith(ast.op, a.val, b.val)
                               [] ast.op \in {"<", "<=", ">", ">="} -> Rel(ast.op, a.val, b.val)
                               [] ast.op = "==" -> SameVal(a.val, b.val)
                               [] ast.op = "!=" ->
                                    LET e == SameVal(a.val, b.val) IN
                                    IF e.k = "undef" THEN e ELSE Bool(e.v = 0)),
                    fx |-> a.fx + b.fx]

(* The observable of one expression: value and number of effects; an       *)
(* undefined value makes the whole observable undefined (fx = 0).          *)
Observe(toks, Dev) ==
  LET r == Eval(Parse(toks, Dev), Dev) IN
  IF r.val.k = "undef" THEN [val |-> Undef, fx |-> 0]
  ELSE IF r.val.k = "err" THEN [val |-> Err, fx |-> 0]
  ELSE r

AllDevs == {"andor_same_level", "eqrel_same_level", "not_only_bool_num", "not_zero_true", "paren_null_kept"}

(* sets of deviations (every non-empty subset: deviations interact) whose    *)
(* observable differs from the ideal one on this input                       *)
DevMap(toks) ==
  LET ideal == Observe(toks, {}) IN
  {[d |-> S, o |-> Observe(toks, S)] : S \in {S \in (SUBSET AllDevs) \ {{}} : Observe(toks, S) # ideal}}

---------------------------------------------------------------------------
(* Laws of the ideal grammar, checked by TLC on every generated string:     *)
(* a second, declarative formulation guards the parser above.               *)

RECURSIVE Unparse(_)
(* fully parenthesised token string of an AST *)
Unparse(ast) ==
  CASE ast.t = "lit" -> <<ast.tok>>
    [] ast.t = "par" -> Unparse(ast.a)
    [] ast.t = "un"  -> <<"(", ast.op>> \o Unparse(ast.a) \o <<")">>
    [] ast.t = "bin" -> <<"(">> \o Unparse(ast.a) \o <<ast.op>> \o Unparse(ast.b) \o <<")">>

(* re-parsing the fully parenthesised form gives the same value under every *)
(* deviation: parentheses override precedence everywhere                    *)
ParenStable(toks) ==
  LET full == Unparse(Parse(toks, {})) IN
  /\ Observe(full, {}) = Observe(toks, {})
  /\ Observe(full, {"andor_same_level", "eqrel_same_level"}) = Observe(toks, {})

(* in a binary node the left child never has lower precedence than the     *)
(* node, the right child is always strictly higher: left-associativity     *)
RECURSIVE WellShaped(_)
WellShaped(ast) ==
  CASE ast.t = "lit" -> TRUE
    [] ast.t = "par" -> WellShaped(ast.a)
    [] ast.t = "un"  -> WellShaped(ast.a) /\ ast.a.t # "bin"
    [] ast.t = "bin" ->
         /\ WellShaped(ast.a) /\ WellShaped(ast.b)
         /\ (ast.a.t = "bin" => Prec(ast.a.op, {}) >= Prec(ast.op, {}))
         /\ (ast.b.t = "bin" => Prec(ast.b.op, {}) > Prec(ast.op, {}))
=============================================================================
