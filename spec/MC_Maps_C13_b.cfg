SPECIFICATION Spec
CONSTANTS
  Keys = {"red", "#f00", "#ff0000", "1in", "96px"}
  Keys3 = {"#f00", "96px", "b"}
  MaxOps = 3
INVARIANTS InvKeysUnique Emit
CHECK_DEADLOCK FALSE
