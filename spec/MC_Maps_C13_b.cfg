SPECIFICATION Spec
CONSTANTS
  Keys = {"red", "#f00", "#ff0000", "b", "2"}
  Keys3 = {"#f00", "b", "2"}
  MaxOps = 3
INVARIANTS InvKeysUnique Emit
CHECK_DEADLOCK FALSE
