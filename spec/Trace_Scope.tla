---------------------------- MODULE Trace_Scope ----------------------------
(* Trace validation for the scope engine: every recorded execution         *)
(* {prog, obs, devs, case} of a program the specification did not choose   *)
(* must be explained by Scope - the ideal semantics, or the complete model *)
(* of the pinned tree when one of the deviations it needs is listed as an  *)
(* open finding (then it is reported).                                     *)
EXTENDS Scope, Json, IOUtils, TLCExt

Rec == ndJsonDeserialize(IOEnv.TRACE)

VARIABLE l
Init == l = 1

Explained(e) ==
  /\ WellFormed(e.prog)
  /\ LET ideal == Ideal(e.prog) IN
     IF ideal.k = "undef" THEN TRUE          \* outside what the property fixes
     ELSE IF e.obs = ideal THEN TRUE
     ELSE LET dm == DevMap(e.prog) IN
          \E d \in (DOMAIN dm) \cap SeqSet(e.devs) :
             /\ (dm[d].k = "undef" \/ e.obs = dm[d])
             /\ PrintT(<<"MSG", "KNOWN", d, e.case>>)

Next == /\ l <= Len(Rec)
        /\ Explained(Rec[l]) = TRUE       \* evaluated as a value (not split into sub-actions)
        /\ l' = l + 1
Spec == Init /\ [][Next]_l

Accepted == IF TLCGet("stats").diameter - 1 = Len(Rec) THEN TRUE
            ELSE PrintT(<<"UNMATCHED", TLCGet("stats").diameter>>) /\ FALSE
=============================================================================
