SPECIFICATION Spec
CONSTANTS
  MaxTriv = 2
INVARIANTS InvTrivOK InvIds Emit
CHECK_DEADLOCK FALSE
