SPECIFICATION Spec
CONSTANTS
  Simples = {"a", ".c"}
  Sfx = {"-x"}
  Combs = {"sp", ">", "+", "~"}
  LeadCombs = {">", "+", "~"}
  Fns = {}
  MaxLevels = 2
  MaxList = 2
  MaxArgList = 1
  MaxComps = 2
  MaxSimp = 2
  MaxTotal = 4
  MaxFn = 0
  MaxDepth = 0
  Amp = {"top"}
  MaxAmp = 2
INVARIANTS InvLaws Emit
CHECK_DEADLOCK FALSE
