------------------------------ MODULE MC_Reach ------------------------------
(* Bounded-exhaustive generator of mini-Sass programs (flat, open/close,    *)
(* built left to right) for C36 (comments at every statement position) and  *)
(* C21 (marked content in every container kind, @error at every position). *)
EXTENDS Reach, Json

CONSTANTS Leaves,      \* leaf statement kinds in use
          Conts,       \* container kinds in use
          MaxStmts,    \* statements (leaves + containers) in the program
          MaxDepth,
          Strict,      \* TRUE: only placements that are valid Sass with a definite meaning (C36)
          Styles,      \* output styles to emit vectors for
          Need,        \* at least one statement of these kinds must occur
          MaxOf        \* [kind |-> max occurrences] for the kinds it mentions (a record)

(* occurrence limits for the cfg files (cfg syntax has no records): MaxOf <- LimC36 etc. *)
LimNone == [none |-> 0]
LimC36  == [decl |-> 1]
LimC36b == [loud |-> 2, bangi |-> 2, rule |-> 1, mixin |-> 1, content |-> 1]
LimC36t == [decl |-> 1, loud |-> 2, bang |-> 1, silent |-> 1, rule |-> 2, nsprop |-> 1, media |-> 1, atrule |-> 1, mixin |-> 1, content |-> 1]
LimC21  == [error |-> 1, decl |-> 2, atstmt |-> 1, loud |-> 1]
LimC21t == [error |-> 1, decl |-> 1, atstmt |-> 1, rule |-> 1, nsprop |-> 1, media |-> 1, atrule |-> 1, mixin |-> 1, content |-> 1, func |-> 1, if1 |-> 1, each2 |-> 1, import |-> 1, loadcss |-> 1]

VARIABLES prog, open, nstmt, phase, style
vars == <<prog, open, nstmt, phase, style>>

(* frame: k kind, rs in a style rule, ns in a nested-property block, cf in control flow / mixin / content, *)
(* fn in a function, fl in a loaded file, n children                                                    *)
Frame(k, rs, ns, cf, fn, fl) == [k |-> k, rs |-> rs, ns |-> ns, cf |-> cf, fn |-> fn, fl |-> fl, lp |-> 0, n |-> 0]
TopFrame == Frame("top", 0, 0, 0, 0, 0)
Cur == open[Len(open)]
Front(s) == SubSeq(s, 1, Len(s) - 1)

Init == prog = <<>> /\ open = <<TopFrame>> /\ nstmt = 0 /\ phase = "build" /\ style = "expanded"

Count(k) == Cardinality({j \in 1..Len(prog) : prog[j].k = k})
Limit(k) == IF k \in DOMAIN MaxOf THEN MaxOf[k] ELSE MaxStmts
Room(k)  == phase = "build" /\ nstmt < MaxStmts /\ Count(k) < Limit(k)

FileKinds == {"import", "use", "loadcss"}
FlowKinds == {"if1", "if0", "else", "each2", "for2", "while2"}

LeafOk(k) ==
  IF Cur.fn = 1 THEN k = "error"                                   \* a function body: only @error (and control flow)
  ELSE IF ~Strict THEN TRUE
  ELSE CASE k = "decl"   -> Cur.rs = 1
         [] k = "atstmt" -> Cur.ns = 0 /\ Cur.k \notin (FlowKinds \cup {"mixin"})   \* rsass rejects unknown at-rules directly in mixins / control flow
         [] k = "error"  -> FALSE
         [] OTHER        -> TRUE

ContOk(k) ==
  IF Cur.fn = 1 THEN k \in FlowKinds
  ELSE IF k \in FileKinds THEN Cur.fl = 0 /\ Cur.lp = 0 /\ ~Strict
  ELSE IF k = "func" THEN ~Strict /\ Cur.k \in {"top", "rule", "import", "use", "loadcss"} /\ Cur.cf = 0
  ELSE IF k = "mixin" THEN Cur.k \in {"top", "rule"} /\ Cur.cf = 0
  ELSE IF ~Strict THEN TRUE
  ELSE CASE k = "nsprop" -> Cur.rs = 1
         [] k \in {"rule", "media", "content"} -> Cur.ns = 0
         [] k = "atrule" -> Cur.ns = 0 /\ Cur.k \notin (FlowKinds \cup {"mixin"})
         [] OTHER -> TRUE

Child(k) ==
  [lp |-> IF Cur.lp = 1 \/ k \in {"each2", "for2", "while2"} THEN 1 ELSE 0] @@
  CASE k = "rule"   -> Frame(k, 1, 0, Cur.cf, 0, Cur.fl)
    [] k = "nsprop" -> Frame(k, Cur.rs, 1, Cur.cf, 0, Cur.fl)
    [] k \in {"media", "atrule"} -> Frame(k, Cur.rs, 0, Cur.cf, 0, Cur.fl)
    [] k = "func"   -> Frame(k, 0, 0, 1, 1, Cur.fl)
    [] k \in FileKinds -> Frame(k, Cur.rs, Cur.ns, Cur.cf, 0, 1)
    [] OTHER        -> Frame(k, Cur.rs, Cur.ns, 1, Cur.fn, Cur.fl)      \* mixin, content, control flow

Bump == [open EXCEPT ![Len(open)].n = @ + 1]

AddLeaf == \E k \in Leaves :
  /\ Room(k) /\ LeafOk(k)
  /\ prog' = Append(prog, Stmt(k, nstmt + 1)) /\ open' = Bump /\ nstmt' = nstmt + 1
  /\ UNCHANGED <<phase, style>>

OpenCont == \E k \in Conts :
  /\ Room(k) /\ ContOk(k) /\ Len(open) - 1 < MaxDepth
  /\ prog' = Append(prog, Stmt(k, nstmt + 1)) /\ open' = Append(Bump, Child(k)) /\ nstmt' = nstmt + 1
  /\ UNCHANGED <<phase, style>>

Close ==
  /\ phase = "build" /\ Len(open) > 1 /\ (Cur.n > 0 \/ Cur.k = "atrule")
  /\ prog' = Append(prog, Stmt("close", 0)) /\ open' = Front(open)
  /\ UNCHANGED <<nstmt, phase, style>>

Finish == \E s \in Styles :
  /\ phase = "build" /\ Len(open) = 1 /\ nstmt > 0
  /\ \E j \in 1..Len(prog) : prog[j].k \in Need
  /\ phase' = "done" /\ style' = s
  /\ UNCHANGED <<prog, open, nstmt>>

Next == AddLeaf \/ OpenCont \/ Close \/ Finish
Spec == Init /\ [][Next]_vars

Done == phase = "done"

InvLaws == Done => LawsReach(prog)

Emit36 == Done => LET o == Observe36(prog, style, {}) IN
            PrintT(<<"VEC", ToJson([prog |-> prog, style |-> style, expect |-> o, dev |-> DevMap36(prog, style, o)])>>)

Emit21 == Done => LET r == Run(prog) IN
            PrintT(<<"VEC", ToJson([prog |-> prog, style |-> style, expect |-> [err |-> r.err, reached |-> r.reached, lost |-> r.lost]])>>)
=============================================================================
