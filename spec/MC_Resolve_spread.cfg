SPECIFICATION Spec
CONSTANTS
  Mode = "spread"
  MaxFiles = 2
  GenKinds = {"use", "forward", "import"}
  GenWhere = {"root", "sub"}
INVARIANTS Laws Emit
CHECK_DEADLOCK FALSE
