SPECIFICATION Spec
CONSTANTS
  Leaves = {"decl", "atstmt", "loud", "error"}
  Conts = {"rule", "nsprop", "media", "atrule", "mixin", "content", "if1", "else", "each2", "while2", "func", "import", "use", "loadcss"}
  MaxStmts = 5
  MaxDepth = 4
  Strict = FALSE
  Styles = {"expanded"}
  Need = {"decl", "atstmt", "loud", "atrule", "error"}
  MaxOf <- LimC21t
INVARIANTS InvLaws Emit21
CHECK_DEADLOCK FALSE
