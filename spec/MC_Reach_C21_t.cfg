SPECIFICATION Spec
CONSTANTS
  Leaves = {"decl", "atstmt", "error"}
  Conts = {"rule", "nsprop", "media", "atrule", "mixin", "content", "if1", "each2", "func", "import", "loadcss"}
  MaxStmts = 5
  MaxDepth = 4
  Strict = FALSE
  Styles = {"expanded"}
  Need = {"decl", "atstmt", "atrule", "error"}
  MaxOf <- LimC21t
INVARIANTS InvLaws Emit21
CHECK_DEADLOCK FALSE
