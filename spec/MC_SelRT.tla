----------------------------- MODULE MC_SelRT -----------------------------
(* Bounded-exhaustive generator of selector sources for C25: token          *)
(* sequences (the denotation) rendered to source code points in every       *)
(* allowed spelling of one name, or with/without optional whitespace.       *)
(* One conformance vector per source: [id, src, den].  TLC also checks the  *)
(* specification's own round trip on every vector: decoding the rendered    *)
(* name gives the name back and the rendered spelling is a valid identifier.*)
EXTENDS SelRT, Json, IOUtils

CONSTANTS Mode,        \* "all" | "names" | "ctx" | "struct" | "input" (token sequences read from IOEnv.INPUTS, Flow B)
          MaxLen,      \* names of 1..MaxLen characters
          Kinds        \* spelling kinds tried: subset of {"raw", "bs", "hex", "hex6"}

(* characters of names: one per class *)
Chars  == {97, 66, 49, 45, 95, 233, 119808, 169, 128512, 46, 32, 1}
       \* a   B   1   -   _   e'   astral-letter  (c)  emoji   .   sp  control
Chars2 == {97, 49, 45, 233, 128512, 46}

Names == {<<c>> : c \in Chars}
         \cup (IF MaxLen >= 2 THEN {<<c, d>> : c \in Chars, d \in Chars2} ELSE {})
         \cup (IF MaxLen >= 3 THEN {<<c, d, 49>> : c \in {97, 45, 49}, d \in {45, 49}} ELSE {})

Spellings(name) == {sp \in [1..Len(name) -> Kinds] : SpellingOK(name, sp)}

na == <<97>>   nb == <<98>>   nc == <<99>>   nd == <<100>>   nx == <<120>>   ny == <<121>>
El(v) == Tok("elem", v)   Cl(v) == Tok("class", v)   Id(v) == Tok("id", v)   Ps(v) == Tok("pseudo", v)   Pe(v) == Tok("pe", v)
An(v) == Tok("aname", v)  Ao(v) == Tok("aop", v)     Av(v) == Tok("aval", v) Am(v) == Tok("amod", v)     Ae == Tok("aend", <<>>)
Cb(c) == Tok("comb", <<c>>)  Comma == Tok("comma", <<>>)  Sp == Tok("sp", <<>>)  Op == Tok("open", <<>>)  Clo == Tok("close", <<>>)
Ar(v) == Tok("arg", v)

NameToks(name) == {<<El(name)>>, <<Cl(name)>>, <<Id(name)>>}

(* contexts for a name <<tokens, position of the name>>: behind a type selector, in a pseudo-class argument, as attribute value, ... *)
Ctx(name) == {<< <<El(na), Cl(name)>>, 2 >>, << <<Ps(<<110, 111, 116>>), Op, Cl(name), Clo>>, 3 >>, << <<An(nx), Ao(<<61>>), Av(name), Ae>>, 3 >>,
              << <<Id(name), Cb(62), El(nb)>>, 1 >>, << <<El(na), Comma, Cl(name)>>, 3 >>, << <<Cl(name), Ps(<<104, 111, 118, 101, 114>>)>>, 1 >>}

---------------------------------------------------------------------------
(* structure: simple selectors incl. namespaces, attribute operators and modifiers, nth arguments, selector arguments *)
hover == <<104, 111, 118, 101, 114>>
before == <<98, 101, 102, 111, 114, 101>>
nth == <<110, 116, 104, 45, 99, 104, 105, 108, 100>>
nthlast == <<110, 116, 104, 45, 108, 97, 115, 116, 45, 99, 104, 105, 108, 100>>
nthtype == <<110, 116, 104, 45, 111, 102, 45, 116, 121, 112, 101>>
W2n == <<50, 110>>  Wof == <<111, 102>>  W1 == <<49>>  Wplus == <<43>>  Weven == <<101, 118, 101, 110>>  Wmn == <<45, 110>>  W3 == <<51>>
Attr(n, op, v) == <<An(n), Ao(op), Av(v), Ae>>

Exotic == {
  <<El(<<110, 115, 124, 97>>)>>, <<El(<<42, 124, 97>>)>>, <<El(<<124, 97>>)>>, <<El(<<42, 124, 42>>)>>, <<El(<<110, 115, 124, 42>>)>>, <<El(<<42>>)>>,
  <<An(nx), Ae>>, <<An(<<110, 115, 124, 120>>), Ae>>, <<An(<<42, 124, 120>>), Ae>>, <<An(<<124, 120>>), Ae>>,
  Attr(nx, <<61>>, ny), Attr(nx, <<94, 61>>, ny), Attr(nx, <<124, 61>>, ny), Attr(nx, <<126, 61>>, ny), Attr(nx, <<36, 61>>, ny), Attr(nx, <<42, 61>>, ny),
  <<An(nx), Ao(<<94, 61>>), Av(ny), Am(<<105>>), Ae>>, <<An(nx), Ao(<<61>>), Av(ny), Am(<<115>>), Ae>>, <<An(nx), Ao(<<61>>), Av(ny), Am(<<73>>), Ae>>,
  Attr(nx, <<61>>, <<97, 32, 98>>), Attr(nx, <<61>>, <<49>>), Attr(nx, <<61>>, <<>>),
  <<Ps(hover)>>, <<Pe(before)>>, <<Ps(before)>>, <<Ps(<<114, 111, 111, 116>>)>>, <<Pe(<<45, 119, 101, 98, 107, 105, 116, 45, 120>>)>>, <<Ps(<<72, 79, 86, 69, 82>>)>>,
  <<Ps(nth), Op, Ar(W2n), Ar(Wplus), Ar(W1), Clo>>, <<Ps(nth), Op, Ar(Weven), Clo>>, <<Ps(nthlast), Op, Ar(Wmn), Ar(Wplus), Ar(W3), Clo>>,
  <<Ps(nthtype), Op, Ar(<<50, 110, 45, 49>>), Clo>>,
  <<Ps(nth), Op, Ar(W2n), Ar(Wplus), Ar(W1), Ar(Wof), Cl(nc), Clo>>, <<Ps(nth), Op, Ar(<<110>>), Ar(Wof), El(na), Cb(62), El(nb), Clo>>,
  <<Ps(nth), Op, Ar(W2n), Ar(Wplus), Ar(W1), Ar(Wof), Cl(nc), Comma, Cl(nd), Clo>>,
  <<Ps(<<105, 115>>), Op, Cl(nc), Comma, Cl(nd), Clo>>, <<Ps(<<110, 111, 116>>), Op, El(na), Cb(62), El(nb), Clo>>,
  <<Ps(<<119, 104, 101, 114, 101>>), Op, El(na), Sp, El(nb), Clo>>, <<Ps(<<104, 97, 115>>), Op, Cb(62), El(na), Clo>>,
  <<Ps(<<104, 97, 115>>), Op, Cb(43), El(na), Comma, Cb(126), El(nb), Clo>>,
  <<Ps(<<105, 115>>), Op, Ps(<<110, 111, 116>>), Op, Cl(nc), Clo, Clo>>, <<Ps(<<104, 111, 115, 116>>), Op, Cl(nc), Clo>>,
  <<Pe(<<115, 108, 111, 116, 116, 101, 100>>), Op, Cl(nc), Clo>>, <<Ps(<<108, 97, 110, 103>>), Op, Ar(<<101, 110>>), Clo>>,
  <<Ps(<<100, 105, 114>>), Op, Ar(<<114, 116, 108>>), Clo>>, <<Ps(<<45, 109, 111, 122, 45, 97, 110, 121>>), Op, El(na), Comma, El(nb), Clo>>,
  <<Ps(<<110, 111, 116>>), Op, Cl(nc), Clo, Ps(<<110, 111, 116>>), Op, Cl(nd), Clo>>,
  <<Ps(<<110, 111, 116>>), Op, El(<<42>>), Clo>>, <<Cl(<<233>>)>>, <<El(<<65>>)>>,
  <<Id(<<105>>), Id(<<106>>)>>, <<Cl(nc), Cl(nc)>>, <<Cl(nc), Cl(nd)>>, <<Ps(hover), Ps(hover)>>}

(* where an exotic simple selector is put: alone, behind / in front of a compound, in an argument, in a list, in the middle *)
IsElemLike(p) == p[1].t = "elem"
Place(p) == {p, <<El(na), Sp>> \o p, p \o <<Cb(62), El(nb)>>, <<Ps(<<110, 111, 116>>), Op>> \o p \o <<Clo>>, p \o <<Comma, El(na)>>,
             <<El(na), Cb(126)>> \o p \o <<Cb(43), Cl(nc)>>}
            \cup (IF ~IsElemLike(p) THEN {<<El(na)>> \o p}
                  ELSE IF p[1].v \in {<<42>>, <<42, 124, 42>>} THEN {}        \* the pinned tree prints `*.c` as `.c`: not generated
                  ELSE {p \o <<Cl(nc)>>})

(* all compounds of <= 2 core simple selectors in storage order, chained by every combinator / a comma: <= 4 simple selectors *)
CoreSimple == {<<El(na)>>, <<Id(<<105>>)>>, <<Cl(nc)>>, <<An(nx), Ae>>, <<Ps(hover)>>, <<Pe(before)>>}
Rank(p) == CASE p[1].t = "elem" -> 1 [] p[1].t = "id" -> 2 [] p[1].t = "class" -> 3 [] p[1].t = "aname" -> 4 [] p[1].t = "pseudo" -> 5 [] OTHER -> 6
Core3 == {<<El(na)>>, <<Cl(nc)>>, <<Ps(hover)>>}
Seps == {<<Sp>>, <<Cb(62)>>, <<Cb(43)>>, <<Cb(126)>>, <<Comma>>}
Pairs2 == {pr \in CoreSimple \X CoreSimple : Rank(pr[1]) < Rank(pr[2])}
Compounds2 == CoreSimple \cup {pr[1] \o pr[2] : pr \in Pairs2}
Chains == Compounds2 \cup {a \o s \o b : a \in Compounds2, s \in Seps, b \in Compounds2}
          \cup {a \o s \o b \o t \o c : a \in CoreSimple, s \in Seps, b \in Core3, t \in Seps, c \in Core3}

---------------------------------------------------------------------------
V(id, toks, at, sp, tight) == [id |-> id, den |-> toks, src |-> IF tight = 1 THEN RenderTight(toks) ELSE Render(toks, at, sp), at |-> at, tight |-> tight]

VNames(z)  == UNION {{V("name", t, 1, sp, 0) : sp \in Spellings(n), t \in NameToks(n)} : n \in Names}
VCtx(z)    == UNION {{V("ctx", t[1], t[2], sp, 0) : sp \in Spellings(n), t \in Ctx(n)} : n \in {n \in Names : Len(n) = 1 \/ n[2] \in {49, 45}}}
VStruct(z) == {V("exotic", t, 0, <<>>, 0) : t \in UNION {Place(p) : p \in Exotic}}
              \cup {V("chain", t, 0, <<>>, tg) : t \in Chains, tg \in {0, 1}}
Vectors(z) ==
  CASE Mode = "names"  -> VNames(z)
    [] Mode = "ctx"    -> VCtx(z)
    [] Mode = "struct" -> VStruct(z)
    [] Mode = "input"  ->
         LET In == ndJsonDeserialize(IOEnv.INPUTS) IN
         {V("rnd", In[i].den, In[i].at, In[i].sp, 0) : i \in {i \in 1..Len(In) : In[i].at = 0 \/ SpellingOK(In[i].den[In[i].at].v, In[i].sp)}}
    [] OTHER           -> VNames(z) \cup VCtx(z) \cup VStruct(z)

VARIABLE vec
Init == vec \in Vectors(0)
Next == UNCHANGED vec
Spec == Init /\ [][Next]_vec

(* the specification's own round trip: what Render writes, Decode reads back, and it is a valid spelling *)
SpecRoundTrip ==
  \A k \in 1..Len(vec.den) :
     LET tk == vec.den[k]  sp == IF k = vec.at THEN CHOOSE s \in Spellings(tk.v) : Render(vec.den, k, s) = vec.src ELSE Raw(tk.v) IN
     (tk.t \in NameClasses /\ ~HasBar(tk.v) /\ (Mode # "input" \/ k # vec.at)) =>
        /\ Decode(Enc(tk.v, sp)) = tk.v
        /\ ValidIdent(Enc(tk.v, sp))

Emit == PrintT(<<"VEC", ToJson(vec)>>)
=============================================================================
