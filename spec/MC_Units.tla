------------------------------ MODULE MC_Units ------------------------------
(* Bounded-exhaustive generator for C11: every ordered pair of units          *)
(* (28 known + unitless + 2 unknown) x every operator x every ordered pair of *)
(* magnitudes from Mags, plus - for convertible pairs with a rational ratio - *)
(* the pair of integers that are exactly equal after conversion.              *)
EXTENDS Units, Json

CONSTANTS Ops, UnitsA, UnitsB, Mags

VARIABLES phase, op, ua, x
vars == <<phase, op, ua, x>>

NoX == [op |-> "", a |-> [n |-> 0, d |-> 1, u |-> ""], b |-> [n |-> 0, d |-> 1, u |-> ""]]
Init == phase = "pick1" /\ op = "" /\ ua = "" /\ x = NoX

Pick1 == /\ phase = "pick1"
         /\ \E o \in Ops, u \in UnitsA : op' = o /\ ua' = u
         /\ phase' = "pick2" /\ UNCHANGED x

MagPairs(u, w) ==
  (Mags \X Mags) \cup
  (IF op # "*" /\ Class(u, w, {}) = "conv" /\ Factor(w, u, {}).pi = 0
   THEN {<<<<Factor(w, u, {}).n, 1>>, <<Factor(w, u, {}).d, 1>>>>} ELSE {})

Pick2 == /\ phase = "pick2"
         /\ \E ub \in UnitsB : \E mp \in MagPairs(ua, ub) :
              x' = [op |-> op, a |-> [n |-> mp[1][1], d |-> mp[1][2], u |-> ua],
                               b |-> [n |-> mp[2][1], d |-> mp[2][2], u |-> ub]]
         /\ phase' = "done" /\ UNCHANGED <<op, ua>>

Next == Pick1 \/ Pick2
Spec == Init /\ [][Next]_vars

Done == phase = "done"

Table == (phase = "pick1") => (TableConsistent /\ OnlyFixedRatios)   \* state-independent: evaluated once
Laws == Done => LawsHold(x)
Emit == (Done /\ Observe(x, {}).k # "undef") =>
          PrintT(<<"VEC", ToJson([op |-> x.op, a |-> x.a, b |-> x.b, expect |-> Observe(x, {}), dev |-> DevMap(x)])>>)

Mags_q == {<<1, 1>>, <<-2, 1>>}
Mags_t == {<<0, 1>>, <<1, 1>>, <<3, 1>>, <<-2, 1>>, <<1, 2>>}
=============================================================================
