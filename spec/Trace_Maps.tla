----------------------------- MODULE Trace_Maps -----------------------------
(* Stateful trace validation for C13.  The trace is a sequence of events     *)
(*   {ev: "reset", case}                   a new run starts from the empty map *)
(*   {ev: "step", case, op, r, st, devs}   one action, its observed result    *)
(*                                          and the observed state after it   *)
(*   {ev: "failed", case, ops, k}          the run's stylesheet did not       *)
(*                                          compile (k = "err")               *)
(* The model state m follows Maps!Step; a step is consumed only if the       *)
(* recorded result and state are what the specification yields from m (or    *)
(* what a listed open deviation yields - then it is reported).  The          *)
(* invariant KeysUnique(m) is evaluated after every consumed event.          *)
EXTENDS Maps, Json, IOUtils, TLCExt

Rec == ndJsonDeserialize(IOEnv.TRACE)

VARIABLES l, m
vars == <<l, m>>
Init == l = 1 /\ m = <<>>

SeqToSet(q) == {q[i] : i \in DOMAIN q}

StepExplained(e) ==
  LET s == Step(m, e.op, {}) IN
  /\ s.r.k # "err"
  /\ e.st = ObsState(s.m)
  /\ \/ e.r = s.r
     \/ \E d \in SeqToSet(e.devs) :
          LET t == Step(m, e.op, {d}) IN
          /\ t.r # s.r /\ e.r = t.r /\ t.m = s.m
          /\ PrintT(<<"MSG", "KNOWN", d, e.case>>)

Next ==
  /\ l <= Len(Rec)
  /\ l' = l + 1
  /\ LET e == Rec[l] IN
     \/ /\ e.ev = "reset" /\ m' = <<>>
     \/ /\ e.ev = "step" /\ StepExplained(e) = TRUE /\ m' = Step(m, e.op, {}).m
     \/ /\ e.ev = "failed" /\ e.k = "err" /\ Run(e.ops, {}) = ErrRun /\ m' = <<>>

Spec == Init /\ [][Next]_vars

InvKeysUnique == KeysUnique(m)

Accepted == IF TLCGet("stats").diameter - 1 = Len(Rec) THEN TRUE
            ELSE PrintT(<<"UNMATCHED", TLCGet("stats").diameter>>) /\ FALSE
=============================================================================
