SPECIFICATION Spec
CONSTANTS
  Prop = "C33"
  RgbGrid <- RgbGridFull
  RgbForms = {"comma"}
  RgbpGrid = {}
  PctGrid <- PctGridFull
  HueGrid <- HueGridFull
  HslForms = {"comma"}
  HwbForms = {"space"}
  AlphaGrid <- AlphaGridIn
  HexDigits = {0, 5, 8, 15}
  HexBytes = {0, 85, 128, 255}
  NameForms = {"lower", "upper"}
  Deltas <- DeltasPM
  Amounts = {}
  Fns = {"id", "rgbf", "mixb", "fade50"}
  FnsNamed = {"lighten10", "darken10", "saturate20", "desaturate20", "invert", "invert30", "complement", "mixw", "mixb", "fade50", "opac25", "scale_l", "grayscale", "adjhue45", "chg_g", "adj_w"}
  Styles = {"expanded", "compressed"}
INVARIANTS LawIdealInRange LawRefBound LawPartnersSame Emit
CHECK_DEADLOCK FALSE
