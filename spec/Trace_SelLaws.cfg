SPECIFICATION Spec
VIEW View
INVARIANT TableLaws
POSTCONDITION Accepted
CHECK_DEADLOCK FALSE
