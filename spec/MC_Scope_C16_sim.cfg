SPECIFICATION Spec
CONSTANTS
  Vars = {"x", "y"}
  Flags = {"none", "global", "default", "null", "inc"}
  OpenKinds = {"rule", "media", "atrule", "if", "each", "for", "while", "lmixin", "lmixind", "lfunctiond", "mixin", "function", "content"}
  BoundKinds = {"each", "for", "mixin", "function", "content", "lmixin", "lmixind", "lfunctiond"}
  MaxLen = 12
  MaxDepth = 4
  CheckDev = {}
  FreshOnly = FALSE
INVARIANTS LawsHold LawWellFormed Emit
CHECK_DEADLOCK FALSE
