------------------------------ MODULE MC_Maps ------------------------------
(* The map state machine of Maps.tla driven by every sequence of actions up *)
(* to MaxOps: a map literal, then get / has-key / remove / set / merge / eq *)
(* over keys drawn from representation-variant classes.  TLC checks the     *)
(* invariants in every reachable state and emits each complete sequence     *)
(* with the expected observation after EVERY action.                        *)
EXTENDS Maps, Json

CONSTANTS Keys,      \* key spellings
          Keys3,     \* three spellings of pairwise different classes (3-entry literals, 2-entry merges)
          MaxOps

VARIABLES m, ops, dead
vars == <<m, ops, dead>>

NoOp == [f |-> "none", k |-> "", v |-> 0, m2 |-> <<>>, ks |-> <<>>]
Op(f) == [NoOp EXCEPT !.f = f]

(* another spelling of the same `==` class *)
Variant(tok) ==
  CASE tok = "1" -> "1.0" [] tok = "1.0" -> "1"
    [] tok = "2" -> "2.0" [] tok = "2.0" -> "2"
    [] tok = "qa" -> "a" [] tok = "a" -> "sa" [] tok = "sa" -> "qa"
    [] tok = "qb" -> "b" [] tok = "b" -> "sb" [] tok = "sb" -> "qb"
    [] tok = "1in" -> "96px" [] tok = "96px" -> "1in"
    [] tok = "red" -> "#f00" [] tok = "#f00" -> "#ff0000" [] tok = "#ff0000" -> "red"
    [] OTHER -> tok
VariantMap(mm) == [p \in 1..Len(mm) |-> Entry(Variant(mm[p].k), mm[p].v)]

Literals ==
  {<<>>}
  \cup {<<Entry(k, 1)>> : k \in Keys}
  \cup {<<Entry(k1, 1), Entry(k2, 2)>> : k1 \in Keys, k2 \in Keys}
  \cup {<<Entry(k1, 1), Entry(k2, 2), Entry(k3, 3)>> : k1 \in Keys3, k2 \in Keys3, k3 \in Keys3}

MergeArgs ==
  {<<Entry(k, 8)>> : k \in Keys}
  \cup {<<Entry(kk[1], 7), Entry(kk[2], 8)>> : kk \in {x \in Keys3 \X Keys3 : x[1] # x[2]}}

(* maps to compare the current state with: permutations / respellings of   *)
(* it (equal) and near misses (not equal)                                  *)
EqArgs(mm) ==
  {mm, Reverse(mm), VariantMap(mm), Reverse(VariantMap(mm))}
  \cup (IF mm = <<>> THEN {<<Entry("1", 1)>>}
        ELSE {SubSeq(mm, 1, Len(mm) - 1),
              [mm EXCEPT ![Len(mm)].v = 9],
              Reverse([mm EXCEPT ![1].v = 9])})

(* key lists for map.remove with several keys, derived from the current   *)
(* state: present keys in an order other than the map's own, respelled,   *)
(* and mixed with a key that is (usually) absent                          *)
KeysOf(mm) == [p \in 1..Len(mm) |-> mm[p].k]
Absent == CHOOSE k \in Keys3 : TRUE
RemoveAllArgs(mm) ==
  LET ks == KeysOf(mm) n == Len(mm) IN
  IF n = 0 THEN {<<Absent, Variant(Absent)>>}
  ELSE {Reverse(ks), KeysOf(VariantMap(Reverse(mm))), <<ks[n], ks[1]>>, <<ks[n], Absent, ks[1]>>, <<Absent, ks[n], ks[1]>>,
        <<ks[1], ks[n]>>}
       \cup (IF n >= 3 THEN {<<ks[2], ks[3], ks[1]>>, <<ks[3], ks[1], ks[2]>>, <<ks[2], ks[1]>>, <<ks[3], ks[2]>>} ELSE {})

Queries(mm) ==
  {[Op(f) EXCEPT !.k = k] : f \in {"get", "has-key"}, k \in Keys}
  \cup {[Op("eq") EXCEPT !.m2 = a] : a \in EqArgs(mm)}

OpsAfter(mm) ==
  {[Op(f) EXCEPT !.k = k] : f \in {"get", "has-key", "remove"}, k \in Keys}
  \cup {[Op("set") EXCEPT !.k = k, !.v = 9] : k \in Keys}
  \cup {[Op("merge") EXCEPT !.m2 = a] : a \in MergeArgs}
  \cup {[Op("eq") EXCEPT !.m2 = a] : a \in EqArgs(mm)}
  \cup {[Op("remove-all") EXCEPT !.ks = a] : a \in RemoveAllArgs(mm)}

IsQuery(op) == op.f \in {"get", "has-key", "eq"}

Init == m = <<>> /\ ops = <<>> /\ dead = FALSE

Do == /\ ~dead /\ Len(ops) < MaxOps
      /\ \E op \in (IF ops = <<>> THEN {[Op("literal") EXCEPT !.m2 = a] : a \in Literals} ELSE OpsAfter(m)) :
           LET s == Step(m, op, {}) IN
           /\ m' = s.m
           /\ ops' = Append(ops, op)
           /\ dead' = (s.r.k = "err" \/ IsQuery(op))      \* a query ends the run (the state is unchanged)

Next == Do
Spec == Init /\ [][Next]_vars

Done == dead \/ Len(ops) = MaxOps

(* ---- invariants of the ideal machine, in every reachable state ---- *)
InvKeysUnique == KeysUnique(m)

(* the laws of every action enabled in the current state *)
InvLaws ==
  /\ \A k \in Keys : LawSet(m, k, 9) /\ LawRemove(m, k)
  /\ \A a \in MergeArgs : LawMerge(m, a)
  /\ \A a \in RemoveAllArgs(m) : LawRemoveAll(m, a)
  /\ \A k1 \in Keys3, k2 \in Keys : LawRemoveAll(m, <<k2, k1>>)
  /\ \A a \in EqArgs(m) : LawEq(m, a)
  /\ \A a \in EqArgs(m), b \in EqArgs(m) : (MapEq(m, a) /\ MapEq(a, b)) => MapEq(m, b)
  /\ \A k \in Keys : Step(MSet(m, k, 9), [Op("get") EXCEPT !.k = Variant(k)], {}).r = RNum(9)
  /\ \A k \in Keys : Step(MRemove(m, k), [Op("has-key") EXCEPT !.k = Variant(k)], {}).r = RBool(FALSE)

(* the run recomputed from scratch ends in the machine's state *)
InvRun == (ops # <<>> /\ (dead => IsQuery(ops[Len(ops)]))) => (LET t == Run(ops, {}) IN t[Len(t)].st = ObsState(m))

(* for the invariant-only configuration: identify states by the map alone *)
ViewM == <<m, dead>>

Emit == Done => PrintT(<<"VEC", ToJson([ops |-> ops, expect |-> Run(ops, {}), dev |-> DevMap(ops)])>>)
=============================================================================
