------------------------------- MODULE Loader -------------------------------
(***************************************************************************)
(* The stylesheet loader of rsass as a state machine.                       *)
(*                                                                         *)
(* Abstracts input/context.rs (Context::transform / find_file / relative / *)
(* lock_loading / unlock_loading, the `loading` map), output/cssdata.rs    *)
(* (CssData::load_module, the `modules` cache), output/transform.rs        *)
(* (Item::Use / Item::Forward / Item::Import) and sass/mixin.rs            *)
(* (MixinDecl::LoadCss).                                                    *)
(*                                                                         *)
(* A compilation is a stack of frames, one per file being evaluated; each  *)
(* file is a sequence of load statements [kind, target, sp] where sp is    *)
(* the spelling of the URL ("plain" = `t`, "dot" = `./t`, "dd" = `d/../t`). *)
(* One action per critical step of the code:                               *)
(*   Lock / LockLoop     Context::lock_loading (insert into `loading`)     *)
(*   CacheHit            CssData::load_module finds the module             *)
(*   InitStart / InitEnd CssData::load_module runs / finishes init         *)
(*   EnterImport, EnterLoadCss                                             *)
(*   Unlock              Context::unlock_loading                           *)
(*   Return              Context::transform returns                         *)
(*                                                                         *)
(* Ideal semantics (Dev = {}): files are identified by their CANONICAL     *)
(* name; a load of a file that is being loaded is a loop error; a module   *)
(* is initialised once.  Named deviations of the pinned tree:              *)
(*   lock_key_textual      `loading` is keyed by the textual name          *)
(*                         (importer directory ++ URL as written)          *)
(*   modcache_key_textual  the module cache is keyed by the textual name   *)
(*   loadcss_unlock_early  meta.load-css releases the lock BEFORE the      *)
(*                         loaded body is evaluated                         *)
(* An @import evaluates its file into a css holder of its own (CssData::new *)
(* in Item::Import) with its own module cache: the CSS of modules used by   *)
(* an imported file is included at the import, also when the module was     *)
(* loaded before (sass-spec directives/use/css/import pins this).  So        *)
(* "initialised once" holds per css holder, and per compilation for graphs *)
(* without @import.                                                         *)
(***************************************************************************)
EXTENDS Integers, Sequences, FiniteSets, TLC

CONSTANTS Files,      \* file ids (strings)
          Root,       \* the entry file (lives in the root directory)
          SubFiles,   \* the files that live in the subdirectory `d`; the others live in the root directory
          MaxDepth    \* stack depth at which a run is declared an overflow

VARIABLES
  Dev,       \* set of deviation names switched on for this run (never changes)
  prog,      \* [Files -> Seq(stmt)]   the file graph under compilation
  stack,     \* Seq(frame): [file, name, pc, kind, locked, phase]
  loading,   \* set of lock keys          (Context.loading)
  modcache,  \* set of cache keys         (CssData.modules)
  result,    \* "run" | "ok" | "loop" | "overflow"
  execs,     \* [Files -> Nat]  how often each file's body was evaluated
  modinits,  \* [Files -> Nat]  how often each file was initialised as a module
  calls,     \* number of Loader::find_file calls made so far
  fault      \* [at |-> n, kind |-> "find" | "read"]: the n-th loader call fails (at = 0: never)

Kinds     == {"use", "forward", "import", "loadcss"}
Spellings == {"plain", "dot", "dd", "ext"}      \* "ext": the plain spelling with the explicit extension `t.scss`
IsModuleKind(k) == k \in {"use", "forward"}

(* where a file lives, and its canonical name *)
DirOfFile(f) == IF f \in SubFiles THEN <<"d">> ELSE <<>>
NameOfFile(f) == DirOfFile(f) \o <<f>>

(* URL as written in file `imp`: a sequence of path segments leading from  *)
(* imp's directory to the target, in one of three spellings                 *)
Base(imp, t) == IF DirOfFile(imp) = DirOfFile(t) THEN <<>>
                ELSE IF DirOfFile(imp) = <<>> THEN <<"d">> ELSE <<"..">>
Detour(imp)  == IF DirOfFile(imp) = <<>> THEN <<"d", "..">> ELSE <<"..", "d">>
UrlIn(imp, s) == CASE s.sp \in {"plain", "ext"} -> Base(imp, s.target) \o <<s.target>>
                   [] s.sp = "dot"   -> <<".">> \o Base(imp, s.target) \o <<s.target>>
                   [] s.sp = "dd"    -> Detour(imp) \o Base(imp, s.target) \o <<s.target>>

(* input/context.rs relative(): directory part of the importer's name ++ url *)
DirOf(name)        == SubSeq(name, 1, Len(name) - 1)
Rel(importer, url) == DirOf(importer) \o url

(* what the file system does with a name: `.` dropped, `x/..` cancelled.     *)
RECURSIVE Norm(_, _)
Norm(name, acc) ==
  IF name = <<>> THEN acc
  ELSE LET h == Head(name) IN
       IF h = "." THEN Norm(Tail(name), acc)
       ELSE IF h = ".." THEN Norm(Tail(name), IF acc = <<>> THEN acc ELSE SubSeq(acc, 1, Len(acc) - 1))
       ELSE Norm(Tail(name), Append(acc, h))
Canon(name) == Norm(name, <<>>)

LockKey(name)  == IF "lock_key_textual" \in Dev THEN name ELSE Canon(name)
CacheKey(name) == IF "modcache_key_textual" \in Dev THEN name ELSE Canon(name)

lvars == <<Dev, prog, stack, loading, modcache, result, execs, modinits, calls, fault>>

Frame(f, name, kind, locked) ==
  [file |-> f, name |-> name, pc |-> 1, kind |-> kind, locked |-> locked, phase |-> "at"]

Top == stack[Len(stack)]
SetTop(fr) == [stack EXCEPT ![Len(stack)] = fr]

RunInit(p) ==
  /\ prog = p
  /\ stack = <<Frame(Root, <<Root>>, "root", TRUE)>>
  /\ loading = {LockKey(<<Root>>)}
  /\ modcache = {}
  /\ result = "run"
  /\ execs = [f \in Files |-> IF f = Root THEN 1 ELSE 0]
  /\ modinits = [f \in Files |-> 0]

(* the CssData that holds the module cache: the innermost enclosing        *)
(* @import frame, otherwise the root holder                                 *)
CssHeadOf(stk) == LET S == {i \in DOMAIN stk : stk[i].kind = "import"} IN
                  IF S = {} THEN 0 ELSE CHOOSE i \in S : \A j \in S : j <= i
CssHead == CssHeadOf(stack)
CKey(name) == <<CssHead, CacheKey(name)>>

Running == result = "run" /\ stack # <<>>
AtStmt  == Running /\ Top.phase = "at" /\ Top.pc <= Len(prog[Top.file])
Stmt    == prog[Top.file][Top.pc]
(* the name under which the loaded file is known: the importer's directory  *)
(* joined with the URL, normalised (only the textual deviations keep the   *)
(* spelling)                                                                *)
TgtName == IF Dev \cap {"lock_key_textual", "modcache_key_textual"} # {}
           THEN Rel(Top.name, UrlIn(Top.file, Stmt))
           ELSE Canon(Rel(Top.name, UrlIn(Top.file, Stmt)))

(* Context::lock_loading, reached from find_file: the file is found, read   *)
(* and locked under its key; a key that is already present is a loop.       *)
(* the loader calls one load statement makes: the generated files are named *)
(* `<t>.scss`, which is candidate 1 for @use/@forward/load-css and          *)
(* candidate 3 (after <t>.import.scss and _<t>.import.scss) for @import     *)
(* (a URL with an explicit extension is looked up as it is: one call)        *)
NCallsOf(st) == IF st.sp = "ext" THEN 1 ELSE IF st.kind = "import" THEN 3 ELSE 1
(* does the armed fault hit this load?  A lookup fault fails whichever call *)
(* it is armed on; a read fault only matters on the call that finds a file  *)
FaultHits == /\ fault.at > calls /\ fault.at <= calls + NCallsOf(Stmt)
             /\ (fault.kind = "find" \/ fault.at = calls + NCallsOf(Stmt))

(* Loader failure while looking up or reading the file: reported as an error *)
LoadFault == /\ AtStmt /\ FaultHits
             /\ result' = "err"
             /\ calls' = fault.at
             /\ UNCHANGED <<Dev, fault, prog, stack, loading, modcache, execs, modinits>>

LockLoop == /\ AtStmt /\ ~FaultHits
            /\ LockKey(TgtName) \in loading
            /\ result' = "loop"
            /\ calls' = calls + NCallsOf(Stmt)
            /\ UNCHANGED <<Dev, fault, prog, stack, loading, modcache, execs, modinits>>

Lock == /\ AtStmt /\ ~FaultHits
        /\ LockKey(TgtName) \notin loading
        /\ loading' = loading \cup {LockKey(TgtName)}
        /\ stack' = SetTop([Top EXCEPT !.phase = "locked"])
        /\ calls' = calls + NCallsOf(Stmt)
        /\ UNCHANGED <<Dev, fault, prog, modcache, result, execs, modinits>>

Locked == Running /\ Top.phase = "locked"

(* CssData::load_module: cached module, no evaluation; then unlock.         *)
CacheHit == /\ Locked /\ IsModuleKind(Stmt.kind)
            /\ CKey(TgtName) \in modcache
            /\ stack' = SetTop([Top EXCEPT !.phase = "unlock"])
            /\ UNCHANGED <<Dev, fault, calls, prog, loading, modcache, result, execs, modinits>>

Push(kind, locked) ==
  IF Len(stack) >= MaxDepth
  THEN /\ result' = "overflow"
       /\ UNCHANGED <<stack, execs>>
  ELSE /\ stack' = Append(SetTop([Top EXCEPT !.phase = "in"]),
                          Frame(Stmt.target, TgtName, kind, locked))
       /\ execs' = [execs EXCEPT ![Stmt.target] = @ + 1]
       /\ UNCHANGED result

InitStart == /\ Locked /\ IsModuleKind(Stmt.kind)
             /\ CKey(TgtName) \notin modcache
             /\ Push(Stmt.kind, TRUE)
             /\ modinits' = [modinits EXCEPT ![Stmt.target] = @ + 1]
             /\ UNCHANGED <<Dev, fault, calls, prog, loading, modcache>>

EnterImport == /\ Locked /\ Stmt.kind = "import"
               /\ Push("import", TRUE)
               /\ UNCHANGED <<Dev, fault, calls, prog, loading, modcache, modinits>>

(* meta.load-css: ideally the lock is held while the body runs; the pinned *)
(* tree unlocks first (sass/mixin.rs) and evaluates the body afterwards.   *)
EnterLoadCss == /\ Locked /\ Stmt.kind = "loadcss"
                /\ IF "loadcss_unlock_early" \in Dev
                   THEN /\ loading' = loading \ {LockKey(TgtName)}
                        /\ Push("loadcss", FALSE)
                   ELSE /\ Push("loadcss", TRUE)
                        /\ UNCHANGED loading
                /\ UNCHANGED <<Dev, fault, calls, prog, modcache, modinits>>

(* end of a loaded file's body: back to the loading statement               *)
Leave == /\ Running /\ Len(stack) > 1 /\ Top.phase = "at" /\ Top.pc > Len(prog[Top.file])
         /\ LET child  == Top
                parent == stack[Len(stack) - 1] IN
            /\ stack' = [SubSeq(stack, 1, Len(stack) - 1) EXCEPT ![Len(stack) - 1] =
                            [parent EXCEPT !.phase = IF child.locked THEN "unlock" ELSE "next"]]
            /\ modcache' = IF IsModuleKind(child.kind) THEN modcache \cup {CKey(child.name)}
                            ELSE IF child.kind = "import"
                                 THEN {k \in modcache : k[1] # Len(stack)}   \* its private holder dies with it
                                 ELSE modcache
         /\ UNCHANGED <<Dev, fault, calls, prog, loading, result, execs, modinits>>

(* Context::unlock_loading *)
Unlock == /\ Running /\ Top.phase = "unlock"
          /\ loading' = loading \ {LockKey(TgtName)}
          /\ stack' = SetTop([Top EXCEPT !.phase = "at", !.pc = @ + 1])
          /\ UNCHANGED <<Dev, fault, calls, prog, modcache, result, execs, modinits>>

Advance == /\ Running /\ Top.phase = "next"
           /\ stack' = SetTop([Top EXCEPT !.phase = "at", !.pc = @ + 1])
           /\ UNCHANGED <<Dev, fault, calls, prog, loading, modcache, result, execs, modinits>>

(* Context::transform: root body done, unlock root, write the output        *)
Return == /\ Running /\ Len(stack) = 1 /\ Top.phase = "at" /\ Top.pc > Len(prog[Root])
          /\ result' = "ok"
          /\ loading' = loading \ {LockKey(<<Root>>)}
          /\ stack' = <<>>
          /\ UNCHANGED <<Dev, fault, calls, prog, modcache, execs, modinits>>

RunNext == LoadFault \/ LockLoop \/ Lock \/ CacheHit \/ InitStart \/ EnterImport \/ EnterLoadCss
           \/ Leave \/ Unlock \/ Advance \/ Return

---------------------------------------------------------------------------
(* Properties of the design (checked with Dev = {}).                        *)

(* static canonical load graph and its reachability *)
Edges(p)    == {e \in Files \X Files : \E i \in DOMAIN p[e[1]] : p[e[1]][i].target = e[2]}
RECURSIVE ReachFrom(_, _, _)
ReachFrom(p, S, n) == IF n = 0 THEN S
                      ELSE ReachFrom(p, S \cup {g \in Files : \E f \in S : <<f, g>> \in Edges(p)}, n - 1)
Reach(p, f) == ReachFrom(p, {g \in Files : <<f, g>> \in Edges(p)}, Cardinality(Files))
OnCycle(p, f) == f \in Reach(p, f)
Reachable(p)  == {Root} \cup Reach(p, Root)
HasReachableCycle(p) == \E f \in Reachable(p) : OnCycle(p, f)

StackFiles == {stack[i].file : i \in DOMAIN stack}

(* the lock discipline: exactly the files on the stack are locked          *)
LockDiscipline ==
  (result = "run" /\ Dev = {}) =>
     \/ loading = {NameOfFile(stack[i].file) : i \in DOMAIN stack}
     \/ (Top.phase \in {"locked", "unlock"} /\
         loading = {NameOfFile(stack[i].file) : i \in DOMAIN stack} \cup {NameOfFile(Stmt.target)})

(* the URL algebra: every spelling written in any file resolves to the       *)
(* canonical name of its target                                              *)
UrlsResolve == \A f \in Files : \A i \in DOMAIN prog[f] :
                  Canon(DirOfFile(f) \o UrlIn(f, prog[f][i])) = NameOfFile(prog[f][i].target)

(* no file is on the stack twice, so the depth is bounded by the file count *)
DepthBound == Dev = {} => (Len(stack) <= Cardinality(Files) /\ Cardinality(StackFiles) = Len(stack))

(* a loop error only for real cycles; acyclic graphs never give one        *)
LoopOnlyOnCycle == (Dev = {} /\ result = "loop") => HasReachableCycle(prog)
NeverOverflow   == Dev = {} => result # "overflow"

(* a loader failure is never absorbed: once the armed call has been made   *)
(* the compilation is over, with an error                                   *)
(* (a read fault armed on a call that finds no file cannot be observed)      *)
FaultReported == (fault.at > 0 /\ fault.kind = "find" /\ calls >= fault.at) => result = "err"
NoErrWithoutFault == result = "err" => (fault.at > 0 /\ calls = fault.at)

(* each module is initialised at most once per compilation                 *)
NoImports(p) == \A f \in Files : \A i \in DOMAIN p[f] : p[f][i].kind # "import"
InitOnce == (Dev = {} /\ NoImports(prog)) => \A f \in Files : modinits[f] <= 1
(* and conversely a compilation that succeeds has met no cycle              *)
OkOnlyAcyclic == (Dev = {} /\ result = "ok") => ~HasReachableCycle(prog)
=============================================================================
