-------------------------------- MODULE Dec --------------------------------
(***************************************************************************)
(* Exact decimal arithmetic on digit sequences (TLC has 32-bit integers    *)
(* and no reals).  A decimal is a record                                   *)
(*     [neg |-> 0/1, ds |-> sequence of digits 0..9, sc |-> scale]         *)
(* denoting  (-1)^neg * (ds read as an integer) * 10^(-sc).  Leading and   *)
(* trailing zeros are allowed; comparison and arithmetic align operands.   *)
(* Shared by Numfmt (C10), Units (C11) and Values (C12).                   *)
(***************************************************************************)
EXTENDS Integers, Sequences

DMax(a, b) == IF a >= b THEN a ELSE b
DMin(a, b) == IF a <= b THEN a ELSE b
DAbsI(i)   == IF i < 0 THEN -i ELSE i

Zeros(n) == [i \in 1..n |-> 0]

RECURSIVE StripLead(_)
StripLead(s) == IF s = <<>> THEN s ELSE IF s[1] = 0 THEN StripLead(Tail(s)) ELSE s
RECURSIVE StripTrail(_)
StripTrail(s) == IF s = <<>> THEN s
                 ELSE IF s[Len(s)] = 0 THEN StripTrail(SubSeq(s, 1, Len(s) - 1)) ELSE s

AllZero(s) == \A i \in DOMAIN s : s[i] = 0

(* digits of a natural number (<<>> for 0) *)
RECURSIVE NatDigits(_)
NatDigits(n) == IF n = 0 THEN <<>> ELSE Append(NatDigits(n \div 10), n % 10)

Dec(neg, ds, sc) == [neg |-> neg, ds |-> ds, sc |-> sc]
DFromParts(neg, ip, fp) == Dec(neg, ip \o fp, Len(fp))
DFromInt(i) == Dec(IF i < 0 THEN 1 ELSE 0, NatDigits(DAbsI(i)), 0)
DZero == Dec(0, <<>>, 0)
DIsZero(a) == AllZero(a.ds)
DAbs(a) == Dec(0, a.ds, a.sc)
DNeg(a) == Dec(1 - a.neg, a.ds, a.sc)

(* a * 10^e *)
DShift(a, e) == IF e >= 0 THEN (IF a.sc >= e THEN Dec(a.neg, a.ds, a.sc - e)
                                ELSE Dec(a.neg, a.ds \o Zeros(e - a.sc), 0))
                ELSE Dec(a.neg, a.ds, a.sc - e)

(* integer and fraction digit strings of |a| (integer part without leading *)
(* zeros, fraction exactly a.sc digits)                                    *)
DIntPart(a) == LET n == Len(a.ds) IN
               IF n <= a.sc THEN <<>> ELSE StripLead(SubSeq(a.ds, 1, n - a.sc))
DFracPart(a) == LET n == Len(a.ds) IN
                IF n >= a.sc THEN SubSeq(a.ds, n - a.sc + 1, n)
                ELSE Zeros(a.sc - n) \o a.ds

(* align two decimals: same scale, same number of digits *)
AlignedDs(a, sc, len) == LET x == a.ds \o Zeros(sc - a.sc) IN Zeros(len - Len(x)) \o x
AlignLen(a, b) == LET sc == DMax(a.sc, b.sc) IN
                  DMax(Len(a.ds) + sc - a.sc, Len(b.ds) + sc - b.sc)

RECURSIVE CmpSeq(_, _, _)
(* lexicographic comparison of equal-length digit strings from index i *)
CmpSeq(x, y, i) == IF i > Len(x) THEN 0
                   ELSE IF x[i] < y[i] THEN -1
                   ELSE IF x[i] > y[i] THEN 1
                   ELSE CmpSeq(x, y, i + 1)

DCmpMag(a, b) == LET sc == DMax(a.sc, b.sc)
                     n  == AlignLen(a, b) IN
                 CmpSeq(AlignedDs(a, sc, n), AlignedDs(b, sc, n), 1)

DCmp(a, b) == LET az == DIsZero(a)
                  bz == DIsZero(b)
                  an == a.neg = 1 /\ ~az
                  bn == b.neg = 1 /\ ~bz IN
              IF an /\ ~bn THEN -1
              ELSE IF bn /\ ~an THEN 1
              ELSE IF an THEN DCmpMag(b, a) ELSE DCmpMag(a, b)

RECURSIVE AddR(_, _, _, _)
(* digits 0..i of x + y (equal lengths) given the carry into position i *)
AddR(x, y, i, c) == IF i = 0 THEN <<c>>
                    ELSE LET s == x[i] + y[i] + c IN Append(AddR(x, y, i - 1, s \div 10), s % 10)
RECURSIVE SubR(_, _, _, _)
(* x - y for x >= y, equal lengths, borrow b into position i *)
SubR(x, y, i, b) == IF i = 0 THEN <<>>
                    ELSE LET s == x[i] - y[i] - b IN
                         IF s < 0 THEN Append(SubR(x, y, i - 1, 1), s + 10)
                         ELSE Append(SubR(x, y, i - 1, 0), s)

DAddMag(a, b) == LET sc == DMax(a.sc, b.sc)
                     n  == AlignLen(a, b)
                     x  == AlignedDs(a, sc, n)
                     y  == AlignedDs(b, sc, n) IN
                 Dec(0, AddR(x, y, n, 0), sc)
(* | |a| - |b| | *)
DDiffMag(a, b) == LET sc == DMax(a.sc, b.sc)
                      n  == AlignLen(a, b)
                      x  == AlignedDs(a, sc, n)
                      y  == AlignedDs(b, sc, n) IN
                  IF CmpSeq(x, y, 1) >= 0 THEN Dec(0, SubR(x, y, n, 0), sc)
                  ELSE Dec(0, SubR(y, x, n, 0), sc)

DAdd(a, b) == IF a.neg = b.neg THEN LET r == DAddMag(a, b) IN Dec(a.neg, r.ds, r.sc)
              ELSE LET r == DDiffMag(a, b) IN
                   IF DCmpMag(a, b) >= 0 THEN Dec(a.neg, r.ds, r.sc) ELSE Dec(b.neg, r.ds, r.sc)
DSub(a, b) == DAdd(a, DNeg(b))

RECURSIVE MulR(_, _, _, _)
MulR(x, k, i, c) == IF i = 0 THEN NatDigits(c)
                    ELSE LET s == x[i] * k + c IN Append(MulR(x, k, i - 1, s \div 10), s % 10)
(* a * k for an integer |k| <= 10^8 *)
DMulSmall(a, k) == Dec(IF k < 0 THEN 1 - a.neg ELSE a.neg, MulR(a.ds, DAbsI(k), Len(a.ds), 0), a.sc)

RECURSIVE DivL(_, _, _, _)
(* long division of a digit string by 0 < k <= 10^8: <<quotient digits, remainder>> *)
DivL(x, k, i, r) == IF i > Len(x) THEN <<<<>>, r>>
                    ELSE LET cur  == r * 10 + x[i]
                             rest == DivL(x, k, i + 1, cur % k) IN
                         <<<<cur \div k>> \o rest[1], rest[2]>>
(* a / k truncated (toward zero) after `extra` more fractional digits:      *)
(* [q |-> decimal, inexact |-> 0/1]                                         *)
DDivSmall(a, k, extra) == LET r == DivL(a.ds \o Zeros(extra), DAbsI(k), 1, 0) IN
                          [q |-> Dec(IF k < 0 THEN 1 - a.neg ELSE a.neg, r[1], a.sc + extra),
                           inexact |-> IF r[2] = 0 THEN 0 ELSE 1]

(* the rational n/d (d > 0) truncated to K fractional digits *)
DFromRat(n, d, K) == DDivSmall(DFromInt(n), d, K)

(* canonical form: no leading zeros, no trailing fractional zeros, +0 *)
DNorm(a) == LET ip == DIntPart(a)
                fp == StripTrail(DFracPart(a)) IN
            Dec(IF ip = <<>> /\ fp = <<>> THEN 0 ELSE a.neg, ip \o fp, Len(fp))
DEq(a, b) == DCmp(a, b) = 0
=============================================================================
