----------------------------- MODULE Self_StyleEq -----------------------------
(* Self-test wrapper for Trace_StyleEq (used only by tools/selftests.d): events carry expect = "accept" | "reject"   *)
(* and the production operator Trace_StyleEq!Explained must agree with it for every event, in one TLC run.           *)
EXTENDS Trace_StyleEq

NextS == /\ l <= Len(Rec)
         /\ (IF Rec[l].expect = "reject" THEN Explained(Rec[l]) = FALSE ELSE Explained(Rec[l]) = TRUE)
         /\ l' = l + 1
SpecS == Init /\ [][NextS]_l
=============================================================================
