----------------------------- MODULE MC_UnitsC -----------------------------
(* C11, compound units: both operands carry a unit SET (area, inverse length, *)
(* speed, length x time) spelled with possibly different but convertible      *)
(* units; every combination of the configured length / time units, every      *)
(* operator in Ops (+ - < <= > >= == max min), every ordered pair of           *)
(* magnitudes, plus the integers that are exactly equal after conversion, and  *)
(* two incompatible shapes.  The oracle is Units!ObserveC: the conversion      *)
(* factor of a unit set is the product of the per-unit ratios to their         *)
(* exponents.                                                                  *)
EXTENDS Units, Json

CONSTANTS Ops, Lens, Times, Mags

VARIABLES phase, op, shape, x
vars == <<phase, op, shape, x>>

Shapes == {"sq", "inv", "quot", "prod", "sq-prod", "quot-touq"}
UE(u, e) == [u |-> u, e |-> e]

(* the pairs of unit sets of one shape *)
UnitPairs(sh) ==
  CASE sh = "sq"   -> {<<<<UE(u, 2)>>, <<UE(w, 2)>>>> : u \in Lens, w \in Lens}
    [] sh = "inv"  -> {<<<<UE(u, -1)>>, <<UE(w, -1)>>>> : u \in Lens, w \in Lens}
    [] sh = "quot" -> {<<<<UE(p[1], 1), UE(p[2], -1)>>, <<UE(p[3], 1), UE(p[4], -1)>>>> : p \in Lens \X Times \X Lens \X Times}
    [] sh = "prod" -> {<<<<UE(p[1], 1), UE(p[2], 1)>>, <<UE(p[3], 1), UE(p[4], 1)>>>> : p \in Lens \X Times \X Lens \X Times}
    [] sh = "sq-prod"   -> {<<<<UE(p[1], 2)>>, <<UE(p[1], 1), UE(p[2], 1)>>>> : p \in Lens \X Times}
    [] sh = "quot-touq" -> {<<<<UE(p[1], 1), UE(p[2], -1)>>, <<UE(p[2], 1), UE(p[1], -1)>>>> : p \in Lens \X Times}

MagPairs(ua, ub) ==
  (Mags \X Mags) \cup
  (IF DimVec(ua, {}) = DimVec(ub, {})
   THEN LET f == CFactor(ub, ua, {}) IN
        IF f.pi = 0 /\ f.n < 40000 /\ f.d < 40000 THEN {<<<<f.n, 1>>, <<f.d, 1>>>>} ELSE {}
   ELSE {})

NoX == [op |-> "", a |-> [n |-> 0, d |-> 1, us |-> <<>>], b |-> [n |-> 0, d |-> 1, us |-> <<>>]]
Init == phase = "pick1" /\ op = "" /\ shape = "" /\ x = NoX

Pick1 == /\ phase = "pick1"
         /\ \E o \in Ops, sh \in Shapes : op' = o /\ shape' = sh
         /\ phase' = "pick2" /\ UNCHANGED x

Pick2 == /\ phase = "pick2"
         /\ \E up \in UnitPairs(shape) : \E mp \in MagPairs(up[1], up[2]) :
              x' = [op |-> op, a |-> [n |-> mp[1][1], d |-> mp[1][2], us |-> up[1]],
                               b |-> [n |-> mp[2][1], d |-> mp[2][2], us |-> up[2]]]
         /\ phase' = "done" /\ UNCHANGED <<op, shape>>

Next == Pick1 \/ Pick2
Spec == Init /\ [][Next]_vars

Done == phase = "done"
Laws == Done => LawsHoldC(x)
Emit == (Done /\ ObserveC(x, {}).k # "undef") =>
          PrintT(<<"VEC", ToJson([c |-> 1, op |-> x.op, a |-> x.a, b |-> x.b, expect |-> ObserveC(x, {}), dev |-> DevMapC(x)])>>)

Mags_q == {<<1, 1>>, <<-2, 1>>}
Mags_t == {<<0, 1>>, <<1, 1>>, <<3, 1>>, <<-2, 1>>, <<1, 2>>}
=============================================================================
