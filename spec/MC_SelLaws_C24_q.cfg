SPECIFICATION Spec
CONSTANTS
  Mode = "c24"
  Tier = "small"
  RefN = 40
INVARIANTS RefLawsHold NeverRejects FinalTable Emit
CHECK_DEADLOCK FALSE
