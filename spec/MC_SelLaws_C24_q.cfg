SPECIFICATION Spec
CONSTANTS
  Mode = "c24"
  Tier = "quick"
  RefN = 40
INVARIANTS RefLawsHold NeverRejects FinalTable Emit
CHECK_DEADLOCK FALSE
