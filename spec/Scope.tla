------------------------------- MODULE Scope -------------------------------
(***************************************************************************)
(* Sass variable scoping (property C16).                                   *)
(*                                                                         *)
(* The state is a stack of frames; every frame has a kind, a variable map, *)
(* a lexical parent (an index into the stack) and the variable its block   *)
(* binds (loop variable / parameter).  A program is a flat statement       *)
(* sequence with open/close; the interpreter Run executes it (loops run    *)
(* their body twice) and records the value every read sees.                *)
(*                                                                         *)
(* Abstracts rsass/src/variablescope.rs (Scope::set_variable, define,      *)
(* define_global, get_or_none, store/restore_local_values, eval_body),     *)
(* sass/variabledeclaration.rs and the frame creation per item kind in     *)
(* output/transform.rs::handle_item (ScopeRef::sub / sub_selectors).       *)
(*                                                                         *)
(* Ideal semantics (the property text):                                    *)
(*   - an assignment without flags updates the innermost frame of the      *)
(*     lexical chain that already declares the variable; if no frame does, *)
(*     or only the global frame does and the assignment is not in          *)
(*     top-level flow control, it declares a new local in the current one; *)
(*   - !global writes the global frame; !default assigns iff the visible   *)
(*     value is undefined or null;                                         *)
(*   - every block ({} of a rule, @media, other at-rule, @if, @each, @for, *)
(*     @while, mixin body, function body, @content block) is a frame;      *)
(*     loop variables and parameters are bound in the block's own frame;   *)
(*   - mixin / function bodies see their definition site (lexical parent), *)
(*     content blocks see the include site ("contentm": a content block    *)
(*     whose wrapper mixin has locals of the same names - invisible).      *)
(* Whether the iterations of @for/@each/@while share one frame is not fixed by *)
(* the property: both choices are computed and the observable is undef     *)
(* where they differ.                                                      *)
(*                                                                         *)
(* Named deviations (what the pinned tree does instead):                   *)
(*   assign_always_local  set_variable inserts into the current frame      *)
(*                        whenever !global is absent (no search for the    *)
(*                        declaring frame, no top-level flow control rule) *)
(*   flow_no_frame        @if and @each bodies (and @for bodies inside     *)
(*                        functions) run in the enclosing frame: no frame  *)
(*                        of their own; @each saves/restores its variables *)
(*                        in that frame (not even that inside functions);  *)
(*                        @for at stylesheet level makes one frame per     *)
(*                        iteration                                        *)
(***************************************************************************)
EXTENDS Integers, Sequences, FiniteSets, TLC

AllVars == {"x", "y"}
Unbound == -1          \* no binding
Null    == 0           \* the Sass value null; numbers are > 0

FlowKinds  == {"if", "each", "for", "while"}
BlockKinds == {"rule", "media", "atrule", "lmixin", "lmixind", "lfunctiond", "mixin", "function", "content", "contentm"}
Kinds      == FlowKinds \cup BlockKinds
BindKinds  == {"each", "for", "mixin", "function", "content", "lmixin", "lmixind", "lfunctiond"}   \* kinds that may bind a variable
(* "lmixin": a mixin declared in place (its definition site is the enclosing block) and included at once, the    *)
(* parameter passed explicitly; "lmixind" / "lfunctiond": a mixin / function declared in place whose parameter    *)
(* takes its declared DEFAULT (the call omits the argument).  Parameters are local to the callee block either way. *)
LocalDef   == {"lmixin", "lmixind", "lfunctiond"}   \* declared in place: allowed at top level and directly in rules / at-rules
FnKinds    == {"function", "lfunctiond"}            \* bodies hold only declarations and flow control
GlobalDef  == {"mixin", "function"}       \* defined at top level: lexical parent = global frame

(* values given to bound variables: iteration values of @for / @each,      *)
(* the argument passed to a parameter                                      *)
ForVals  == <<1, 2>>
EachVals == <<3, 4>>
WhileVals == <<0, 0>>
ParamVal(kind) == CASE kind \in {"mixin", "lmixin", "lmixind"} -> 5 [] kind \in FnKinds -> 6 [] kind = "content" -> 7
IsBoundVal(v) == v \in 1..8      \* 8: locals of the wrapper mixin of a "contentm" block, never visible to the block

AllDevs == {"assign_always_local", "flow_no_frame"}

(* statements *)
Asg(v, flag) == [op |-> "asg", var |-> v, arg |-> flag]     \* flag: none global default null inc
Read(v)      == [op |-> "read", var |-> v, arg |-> "-"]
Open(k, v)   == [op |-> "open", var |-> v, arg |-> k]       \* v: bound variable or "-"
Close        == [op |-> "close", var |-> "-", arg |-> "-"]

---------------------------------------------------------------------------
(* Frames and the lexical chain                                             *)

NoVars == [v \in AllVars |-> Unbound]
Frame(kind, parent, lv) == [kind |-> kind, vars |-> NoVars, parent |-> parent, lv |-> lv]

InitState == [st |-> <<Frame("global", 0, "-")>>, reads |-> <<>>, err |-> 0, undef |-> 0, fn |-> 0, log |-> <<>>]

RECURSIVE Chain(_, _)
(* frame indices from frame i to the global frame, innermost first *)
Chain(st, i) == IF i = 0 THEN <<>> ELSE <<i>> \o Chain(st, st[i].parent)

RECURSIVE FirstDeclaring(_, _, _)
(* innermost frame of the chain from i that binds var; 0 if none *)
FirstDeclaring(st, i, var) ==
  IF i = 0 THEN 0
  ELSE IF st[i].vars[var] # Unbound THEN i
  ELSE FirstDeclaring(st, st[i].parent, var)

LookupSt(st, var) ==
  LET d == FirstDeclaring(st, Len(st), var) IN IF d = 0 THEN Unbound ELSE st[d].vars[var]

RECURSIVE AllFlowUp(_, _)
(* every frame from i up to (excluding) the global frame is flow control:  *)
(* the current position is the top level or top-level flow control          *)
AllFlowUp(st, i) ==
  IF i <= 1 THEN TRUE
  ELSE st[i].kind \in FlowKinds /\ AllFlowUp(st, st[i].parent)

SetVar(st, i, var, val) == [st EXCEPT ![i].vars[var] = val]

(* the frame an assignment without flags writes *)
Target(st, var, dev) ==
  LET c == Len(st) IN
  IF "assign_always_local" \in dev THEN c
  ELSE LET d == FirstDeclaring(st, c, var) IN
       IF d = 0 THEN c
       ELSE IF d = 1 /\ ~AllFlowUp(st, c) THEN c
       ELSE d

AssignPlain(st, var, val, dev) == SetVar(st, Target(st, var, dev), var, val)

---------------------------------------------------------------------------
(* One statement.  M = [dev |-> set of deviations, iter |-> "loop"|"iter"]  *)

LogAsg(s, t, val, post) ==
  Append(s.log, [op |-> "asg", var |-> t.var, arg |-> t.arg, val |-> val, pre |-> s.st, post |-> post, from |-> 0])

StepAsg(t, pc, s, M) ==
  LET val == 10 + pc
      vis == LookupSt(s.st, t.var) IN
  CASE t.arg = "global" ->
         LET p == SetVar(s.st, 1, t.var, val) IN [s EXCEPT !.st = p, !.log = LogAsg(s, t, val, p)]
    [] t.arg = "none" ->
         LET p == AssignPlain(s.st, t.var, val, M.dev) IN [s EXCEPT !.st = p, !.log = LogAsg(s, t, val, p)]
    [] t.arg = "null" ->
         LET p == AssignPlain(s.st, t.var, Null, M.dev) IN [s EXCEPT !.st = p, !.log = LogAsg(s, t, Null, p)]
    [] t.arg = "default" ->
         LET p == IF vis \notin {Unbound, Null} THEN s.st ELSE AssignPlain(s.st, t.var, val, M.dev)
         IN [s EXCEPT !.st = p, !.log = LogAsg(s, t, val, p)]
    [] t.arg = "inc" ->      \* $v: $v + 100
         IF vis = Unbound THEN [s EXCEPT !.err = 1]
         ELSE IF vis = Null THEN [s EXCEPT !.undef = 1]      \* null + 100: not the business of this property
         ELSE LET p == AssignPlain(s.st, t.var, vis + 100, M.dev)
              IN [s EXCEPT !.st = p, !.log = LogAsg(s, t, vis + 100, p)]

StepRead(t, s) ==
  LET v == LookupSt(s.st, t.var) IN
  IF v = Unbound THEN [s EXCEPT !.err = 1]
  ELSE [s EXCEPT !.reads = Append(s.reads, v),
                 !.log = Append(s.log, [op |-> "read", var |-> t.var, arg |-> "-", val |-> v, pre |-> s.st, post |-> s.st, from |-> 0])]

RECURSIVE MatchFrom(_, _, _)
MatchFrom(prog, i, depth) ==
  IF prog[i].op = "open" THEN MatchFrom(prog, i + 1, depth + 1)
  ELSE IF prog[i].op = "close" THEN (IF depth = 0 THEN i ELSE MatchFrom(prog, i + 1, depth - 1))
  ELSE MatchFrom(prog, i + 1, depth)
(* index of the close matching the open at pc *)
Match(prog, pc) == MatchFrom(prog, pc + 1, 0)

Push(s, kind, parent, lv) == [s EXCEPT !.st = Append(s.st, Frame(kind, parent, lv))]
Pop(s) == [s EXCEPT !.st = SubSeq(s.st, 1, Len(s.st) - 1)]
BindTop(s, var, val) == IF var = "-" THEN s ELSE [s EXCEPT !.st = SetVar(s.st, Len(s.st), var, val)]

(* how a flow-control block gets its frame: "loop" one frame for the whole *)
(* block, "iter" one per iteration, "none" the enclosing frame is used     *)
FrameMode(kind, s, M) ==
  IF "flow_no_frame" \in M.dev THEN
       CASE kind = "if" -> "none"
         [] kind = "each" -> "none"
         [] kind = "for" -> IF s.fn = 1 THEN "none" ELSE "iter"
         [] kind = "while" -> "loop"
  ELSE IF kind \in {"for", "each", "while"} THEN M.iter ELSE "loop"

RECURSIVE RunSeq(_, _, _, _, _), Iterate(_, _, _, _, _, _, _, _), Block(_, _, _, _, _)

(* run the body pc+1 .. m-1 once per value of vals[k..] *)
Iterate(prog, pc, m, s, M, vals, k, mode) ==
  IF k > Len(vals) \/ s.err = 1 \/ s.undef = 1 THEN s
  ELSE LET t  == prog[pc]
           s1 == IF mode = "iter" THEN Push(s, t.arg, Len(s.st), t.var) ELSE s
           s2 == IF t.arg = "while" THEN s1 ELSE BindTop(s1, t.var, vals[k])
           s3 == RunSeq(prog, pc + 1, m, s2, M)
           s4 == IF mode = "iter" /\ s3.err = 0 THEN Pop(s3) ELSE s3
       IN Iterate(prog, pc, m, s4, M, vals, k + 1, mode)

Block(prog, pc, m, s, M) ==
  LET t    == prog[pc]
      kind == t.arg
      top  == Len(s.st)
      res  ==
        IF kind \in FlowKinds THEN
          LET mode == FrameMode(kind, s, M)
              vals == CASE kind = "if" -> <<0>> [] kind = "for" -> ForVals [] kind = "each" -> EachVals [] kind = "while" -> WhileVals
          IN IF kind = "if" THEN
                  (IF mode = "none" THEN RunSeq(prog, pc + 1, m, s, M)
                   ELSE LET r == RunSeq(prog, pc + 1, m, Push(s, kind, top, "-"), M) IN IF r.err = 0 THEN Pop(r) ELSE r)
             ELSE IF mode = "loop" THEN
                  LET r == Iterate(prog, pc, m, Push(s, kind, top, t.var), M, vals, 1, mode) IN IF r.err = 0 THEN Pop(r) ELSE r
             ELSE IF mode = "iter" THEN Iterate(prog, pc, m, s, M, vals, 1, mode)
             ELSE \* "none": the loop variable is written into the enclosing frame;
                  \* at stylesheet level @each restores the previous local binding afterwards
                  LET saved == IF t.var = "-" THEN Unbound ELSE s.st[top].vars[t.var]
                      r     == Iterate(prog, pc, m, s, M, vals, 1, mode)
                  IN IF r.err = 0 /\ kind = "each" /\ s.fn = 0 /\ t.var # "-"
                     THEN [r EXCEPT !.st = SetVar(r.st, top, t.var, saved)] ELSE r
        ELSE
          LET parent == IF kind \in GlobalDef THEN 1 ELSE top
              s1 == Push(s, kind, parent, t.var)
              s2 == IF kind \in BindKinds THEN BindTop(s1, t.var, ParamVal(kind)) ELSE s1
              s3 == IF kind \in FnKinds THEN [s2 EXCEPT !.fn = 1] ELSE s2
              r  == RunSeq(prog, pc + 1, m, s3, M)
          IN IF r.err = 0 THEN [Pop(r) EXCEPT !.fn = s.fn] ELSE r
  IN IF res.err = 1 THEN res
     ELSE [res EXCEPT !.log = Append(res.log, [op |-> "block", var |-> t.var, arg |-> kind, val |-> 0,
                                               pre |-> s.st, post |-> res.st, from |-> Len(s.log) + 1])]

RunSeq(prog, pc, stop, s, M) ==
  IF pc >= stop \/ s.err = 1 \/ s.undef = 1 THEN s
  ELSE LET t == prog[pc] IN
       IF t.op = "open" THEN LET m == Match(prog, pc) IN RunSeq(prog, m + 1, stop, Block(prog, pc, m, s, M), M)
       ELSE IF t.op = "asg" THEN RunSeq(prog, pc + 1, stop, StepAsg(t, pc, s, M), M)
       ELSE IF t.op = "read" THEN RunSeq(prog, pc + 1, stop, StepRead(t, s), M)
       ELSE s     \* a stray close: not a program

Run(prog, dev, iter) == RunSeq(prog, 1, Len(prog) + 1, InitState, [dev |-> dev, iter |-> iter])

---------------------------------------------------------------------------
(* Observables                                                              *)

Project(s) ==
  IF s.undef = 1 THEN [k |-> "undef", reads |-> <<>>]
  ELSE IF s.err = 1 THEN [k |-> "err", reads |-> <<>>]  \* reading an undeclared variable is an error
  ELSE [k |-> "ok", reads |-> s.reads]

UndefObs == [k |-> "undef", reads |-> <<>>]

Obs(prog, dev) == Project(Run(prog, dev, "loop"))

(* the observable the property fixes: defined only where sharing or not    *)
(* sharing a frame between iterations makes no difference                   *)
Ideal(prog) ==
  LET a == Obs(prog, {})
      b == Project(Run(prog, {}, "iter"))
  IN IF a = b THEN a ELSE UndefObs

(* what the pinned tree does *)
Pinned(prog) == Obs(prog, AllDevs)

(* deviations that explain a difference between the pinned tree and the    *)
(* ideal: every deviation whose removal changes the prediction (all of     *)
(* them when only their combination matters); the prediction is always the *)
(* complete model of the pinned tree (k = "undef": the pinned tree leaves   *)
(* the modelled domain, nothing is predicted)                               *)
DevMap(prog) ==
  LET ideal == Ideal(prog)
      r     == Pinned(prog)
      rel   == {d \in AllDevs : Obs(prog, AllDevs \ {d}) # r}
      keys  == IF r = ideal THEN {} ELSE IF rel = {} THEN AllDevs ELSE rel
  IN [d \in keys |-> r]

---------------------------------------------------------------------------
(* Laws: the sentences of the property as predicates over the execution    *)
(* log (declarative second formulation; TLC checks them on every generated *)
(* program under the ideal semantics, and finds them violated when a       *)
(* deviation is switched on).                                              *)

SeqSet(q) == {q[i] : i \in DOMAIN q}
ChainSet(st, i) == SeqSet(Chain(st, i))
Max(S) == CHOOSE i \in S : \A j \in S : j <= i

(* the frame the property designates for an assignment without flags *)
LawTarget(st, var) ==
  LET c     == Len(st)
      chain == ChainSet(st, c)
      decl  == {i \in chain : st[i].vars[var] # Unbound}
      topflow == \A i \in chain \ {1} : st[i].kind \in FlowKinds
  IN IF decl = {} THEN c
     ELSE IF Max(decl) = 1 /\ ~topflow THEN c      \* a global is shadowed outside top-level flow control
     ELSE Max(decl)                                \* innermost declaring frame (children have larger indices)

LogOf(prog, dev) == Run(prog, dev, "loop").log

(* "an assignment without flags updates the innermost enclosing scope that already declares it ..." *)
LawAssign(log) ==
  \A n \in DOMAIN log : LET e == log[n] IN
    (e.op = "asg" /\ e.arg \in {"none", "null", "inc"}) =>
       e.post = [e.pre EXCEPT ![LawTarget(e.pre, e.var)].vars[e.var] = e.val]

(* "!global always writes the global" *)
LawGlobal(log) ==
  \A n \in DOMAIN log : LET e == log[n] IN
    (e.op = "asg" /\ e.arg = "global") => e.post = [e.pre EXCEPT ![1].vars[e.var] = e.val]

(* "!default assigns only when the variable is undefined or null" *)
LawDefault(log) ==
  \A n \in DOMAIN log : LET e == log[n] IN
    (e.op = "asg" /\ e.arg = "default") =>
       IF LookupSt(e.pre, e.var) \in {Unbound, Null}
       THEN e.post = [e.pre EXCEPT ![LawTarget(e.pre, e.var)].vars[e.var] = e.val]
       ELSE e.post = e.pre

(* an assignment is visible at once (except a !global one that is shadowed, or a !default that did nothing) *)
LawReadBack(log) ==
  \A n \in DOMAIN log : LET e == log[n] IN
    (e.op = "asg" /\ e.arg \in {"none", "null", "inc"}) => LookupSt(e.post, e.var) = e.val

(* blocks are scopes: when a block ends its frame is gone, outer non-global *)
(* frames have gained no binding, and the global frame gains bindings only *)
(* through !global                                                          *)
LawBlock(log) ==
  \A n \in DOMAIN log : LET e == log[n] IN
    e.op = "block" =>
      /\ Len(e.post) = Len(e.pre)
      /\ \A i \in DOMAIN e.pre :
           /\ e.post[i].kind = e.pre[i].kind /\ e.post[i].parent = e.pre[i].parent
           /\ \A v \in AllVars :
                (e.pre[i].vars[v] = Unbound /\ e.post[i].vars[v] # Unbound) =>
                   /\ i = 1
                   /\ \E k \in e.from .. (n - 1) : log[k].op = "asg" /\ log[k].var = v /\ log[k].arg = "global"

(* loop variables and parameters are local to their block: their values    *)
(* are only ever seen below a frame that binds that variable               *)
LawBoundLocal(log) ==
  \A n \in DOMAIN log : LET e == log[n] IN
    (e.op = "read" /\ IsBoundVal(e.val)) =>
       \E i \in ChainSet(e.pre, Len(e.pre)) : e.pre[i].lv = e.var /\ e.pre[i].kind \in BindKinds

Laws(log) == LawAssign(log) /\ LawGlobal(log) /\ LawDefault(log) /\ LawReadBack(log) /\ LawBlock(log) /\ LawBoundLocal(log)

---------------------------------------------------------------------------
(* Well-formed programs (shared by the generator and the trace spec)        *)

RECURSIVE WfFrom(_, _, _)
(* stack = sequence of kinds of the open blocks *)
WfFrom(prog, i, stack) ==
  IF i > Len(prog) THEN stack = <<>>
  ELSE LET t == prog[i] IN
    CASE t.op = "asg"  -> t.var \in AllVars /\ t.arg \in {"none", "global", "default", "null", "inc"} /\ WfFrom(prog, i + 1, stack)
      [] t.op = "read" -> t.var \in AllVars /\ WfFrom(prog, i + 1, stack)
      [] t.op = "open" ->
           /\ t.arg \in Kinds
           /\ (t.var = "-" \/ (t.var \in AllVars /\ t.arg \in BindKinds))
           \* a function body holds only declarations and flow control
           /\ (SeqSet(stack) \cap FnKinds # {} => t.arg \in FlowKinds)
           \* a mixin / function may be declared in place only directly inside rules / at-rules
           /\ (t.arg \in LocalDef => SeqSet(stack) \subseteq {"rule", "media", "atrule"})
           /\ i < Len(prog) /\ prog[i + 1].op # "close"
           /\ WfFrom(prog, i + 1, Append(stack, t.arg))
      [] t.op = "close" -> stack # <<>> /\ WfFrom(prog, i + 1, SubSeq(stack, 1, Len(stack) - 1))
      [] OTHER -> FALSE

WellFormed(prog) == WfFrom(prog, 1, <<>>)
=============================================================================
