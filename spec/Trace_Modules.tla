---------------------------- MODULE Trace_Modules ----------------------------
(* Trace validation for the module-system engine: every recorded compilation *)
(* {r, m, acc, obs, devs, case} of a module graph must be explained by        *)
(* Modules!Observe - the ideal rules, or a set of deviations listed as open   *)
(* findings (then it is reported).  Programs the specification does not       *)
(* decide (NotModelled) are accepted unexamined.                              *)
EXTENDS Modules, Json, IOUtils, TLCExt

Rec == ndJsonDeserialize(IOEnv.TRACE)

VARIABLE l
Init == l = 1

SeqToSet(s) == {s[i] : i \in DOMAIN s}

Explained(e) ==
  LET prog == [r |-> e.r, m |-> e.m, acc |-> e.acc] IN
  IF NotModelled(prog) THEN TRUE
  ELSE LET ideal == ObserveM(prog, {}) IN
       IF e.obs = ideal THEN TRUE
       ELSE \E S \in (SUBSET (SeqToSet(e.devs) \cap Relevant(prog))) \ {{}} :
              LET o == ObserveM(prog, S) IN
              /\ o # ideal
              /\ e.obs = o
              /\ PrintT(<<"MSG", "KNOWN", S, e.case>>)

Next == /\ l <= Len(Rec)
        /\ Explained(Rec[l]) = TRUE     \* evaluated as a value: no sub-action per disjunct
        /\ l' = l + 1
Spec == Init /\ [][Next]_l

Accepted == IF TLCGet("stats").diameter - 1 = Len(Rec) THEN TRUE
            ELSE PrintT(<<"UNMATCHED", TLCGet("stats").diameter>>) /\ FALSE
=============================================================================
