SPECIFICATION Spec
CONSTANTS
  Prop = "C32"
  RgbGrid <- RgbGridIn
  RgbForms = {"comma"}
  RgbpGrid = {}
  PctGrid <- PctGridIn
  HueGrid <- HueGridIn
  HslForms = {"comma"}
  HwbForms = {"space"}
  AlphaGrid <- AlphaGridOpaqueHalf
  HexDigits = {0, 8, 15}
  HexBytes = {}
  NameForms = {"lower"}
  Deltas = {}
  Amounts = {0, 10000, 50000, 100000}
  Fns = {}
  FnsNamed = {}
  Styles = {}
INVARIANTS LawIdealInRange LawRefBound LawPartnersSame Emit
CHECK_DEADLOCK FALSE
