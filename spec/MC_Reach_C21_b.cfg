SPECIFICATION Spec
CONSTANTS
  Leaves = {"error", "decl"}
  Conts = {"rule", "mixin", "content", "if1", "if0", "else", "each2", "while2", "func", "import", "use", "loadcss"}
  MaxStmts = 5
  MaxDepth = 3
  Strict = FALSE
  Styles = {"expanded"}
  Need = {"error"}
  MaxOf <- LimC21
INVARIANTS InvLaws Emit21
CHECK_DEADLOCK FALSE
