----------------------------- MODULE Selectors -----------------------------
(***************************************************************************)
(* Sass selector nesting (C19) and placeholder removal (C22).              *)
(*                                                                         *)
(* A nest of style rules is given as ONE flat token string                 *)
(*     a , b > .c { & -x , :not( & ) { d                                   *)
(* ("{" separates nesting levels, "sp" is the descendant combinator).      *)
(* The spec owns the grammar: it parses the tokens into                    *)
(*   list     = sequence of complex selectors                              *)
(*   complex  = sequence of components [comb, cmp]                         *)
(*   compound = sequence of simple selectors [t, k, arg]                   *)
(*              (arg = selector list of a selector pseudo-class)           *)
(* resolves every level against the level above (`Nest`), removes what a   *)
(* placeholder makes unmatchable (`NoPlaceholder`) and prints the text.    *)
(*                                                                         *)
(* Abstracts rsass/src/css/selectors/{cssselectorset,selectorset,selector, *)
(* compound,pseudo,opt,context}.rs, sass/selectors.rs, css/rule.rs.        *)
(*                                                                         *)
(* Named deviations (what the pinned tree does instead of Sass):           *)
(*   compound_reordered   every compound selector is stored by kind        *)
(*       (element, placeholders, id, classes, attributes, pseudos) and     *)
(*       printed in that order; `&` + suffix is re-parsed from that text   *)
(*   amp_duplicate_merged   when `&` is replaced, classes / placeholders   *)
(*       that the parent compound already has are dropped (`.c{&.c{}}`     *)
(*       gives `.c` instead of `.c.c`: the compound goes through unify)    *)
(*   not_placeholder_empty_compound   a compound that consists only of     *)
(*       :not(<placeholders>) is printed as nothing instead of `*` unless  *)
(*       it is the whole selector list                                     *)
(***************************************************************************)
EXTENDS Integers, Sequences, FiniteSets, TLC

ElemToks   == {"a", "b", "c", "d", "e"}
ClassToks  == {".b", ".c", ".d", ".e"}
IdToks     == {"#i", "#j"}
AttrToks   == {"[x]", "[y]"}
PseudoToks == {":hover", ":focus"}
PhToks     == {"%p", "%q"}
SfxToks    == {"-x", "-y"}
CombToks   == {"sp", ">", "+", "~"}
NotToks    == {":not("}
FnToks     == {":not(", ":is(", ":where(", ":matches(", ":has(", ":any(", ":host(", ":-moz-any("}
SimpleToks == ElemToks \cup ClassToks \cup IdToks \cup AttrToks \cup PseudoToks \cup PhToks

Kind(t) ==
  CASE t \in ElemToks   -> "elem"
    [] t \in ClassToks  -> "class"
    [] t \in IdToks     -> "id"
    [] t \in AttrToks   -> "attr"
    [] t \in PseudoToks -> "pseudo"
    [] t \in PhToks     -> "ph"
    [] t \in SfxToks    -> "sfx"
    [] t = "&"          -> "amp"
    [] t \in FnToks     -> "fn"
    [] OTHER            -> "other"

Simple(t)   == [t |-> t, k |-> Kind(t), arg |-> <<>>]
Star        == [t |-> "*", k |-> "elem", arg |-> <<>>]
UndefSimple == [t |-> "?", k |-> "undef", arg |-> <<>>]
PanicSimple == [t |-> "!", k |-> "panic", arg |-> <<>>]

(* TLC evaluates function constructors lazily and without memoisation; Sq  *)
(* forces a sequence built by a constructor to be evaluated once.          *)
Sq(f) == TLCEval(f)

RECURSIVE Cat(_)
Cat(ss) == IF Len(ss) = 0 THEN <<>> ELSE Head(ss) \o Cat(Tail(ss))

Front(s) == SubSeq(s, 1, Len(s) - 1)

---------------------------------------------------------------------------
(* Grammar: tokens -> structure.  Results are [v |-> value, p |-> next].  *)

RECURSIVE ParseCompoundFrom(_, _, _), ParseComplexFrom(_, _, _), ParseListFrom(_, _, _)

EndOfCompound(toks, p) == p > Len(toks) \/ toks[p] \in ({",", ")", "{"} \cup CombToks)
EndOfComplex(toks, p)  == p > Len(toks) \/ toks[p] \in {",", ")", "{"}

ParseCompoundFrom(toks, p, acc) ==
  IF EndOfCompound(toks, p) THEN [v |-> acc, p |-> p]
  ELSE IF toks[p] \in FnToks THEN
       LET inner == ParseListFrom(toks, p + 1, <<>>) IN     \* inner.p is at the ")"
       ParseCompoundFrom(toks, inner.p + 1, Append(acc, [t |-> toks[p], k |-> "fn", arg |-> inner.v]))
  ELSE ParseCompoundFrom(toks, p + 1, Append(acc, Simple(toks[p])))

ParseComplexFrom(toks, p, acc) ==
  IF EndOfComplex(toks, p) THEN [v |-> acc, p |-> p]
  ELSE IF toks[p] \in CombToks THEN
       LET c == ParseCompoundFrom(toks, p + 1, <<>>) IN
       ParseComplexFrom(toks, c.p, Append(acc, [comb |-> toks[p], cmp |-> c.v]))
  ELSE LET c == ParseCompoundFrom(toks, p, <<>>) IN
       ParseComplexFrom(toks, c.p, Append(acc, [comb |-> "", cmp |-> c.v]))

ParseListFrom(toks, p, acc) ==
  LET c == ParseComplexFrom(toks, p, <<>>) IN
  IF c.p <= Len(toks) /\ toks[c.p] = ","
  THEN ParseListFrom(toks, c.p + 1, Append(acc, c.v))
  ELSE [v |-> Append(acc, c.v), p |-> c.p]

RECURSIVE ParseLevelsFrom(_, _, _)
ParseLevelsFrom(toks, p, acc) ==
  LET l == ParseListFrom(toks, p, <<>>) IN
  IF l.p <= Len(toks) THEN ParseLevelsFrom(toks, l.p + 1, Append(acc, l.v))   \* at "{"
  ELSE Append(acc, l.v)

Levels(toks) == ParseLevelsFrom(toks, 1, <<>>)

---------------------------------------------------------------------------
(* Predicates over the structure                                            *)

RECURSIVE AnyList(_, _), AnyComplex(_, _), AnyCompound(_, _)
(* is there a simple selector of kind in ks anywhere (incl. pseudo arguments)? *)
AnyCompound(cmp, ks) == \E s \in 1..Len(cmp) : cmp[s].k \in ks \/ (cmp[s].k = "fn" /\ AnyList(cmp[s].arg, ks))
AnyComplex(c, ks)    == \E k \in 1..Len(c) : AnyCompound(c[k].cmp, ks)
AnyList(L, ks)       == \E i \in 1..Len(L) : AnyComplex(L[i], ks)

HasAmpList(L)     == AnyList(L, {"amp"})
HasAmpComplex(c)  == AnyComplex(c, {"amp"})

---------------------------------------------------------------------------
(* The domain on which nesting is specified here: `&` only as the first     *)
(* simple selector of a compound and at most once per complex selector      *)
(* (arguments of pseudo-classes count separately), a suffix only directly   *)
(* after `&`, a type selector only first; a complex selector that starts    *)
(* with a combinator contains no `&` and stands at the top level of a       *)
(* nested rule; the outermost rule has neither.                             *)

RECURSIVE OkComplex(_, _), OkCompound(_)
OkCompound(cmp) ==
  /\ Len(cmp) >= 1 /\ cmp[1].k # "sfx"
  /\ \A s \in 2..Len(cmp) : /\ cmp[s].k \notin {"amp", "elem"}
                             /\ (cmp[s].k = "sfx" => (s = 2 /\ cmp[1].k = "amp"))
  /\ \A s \in 1..Len(cmp) : cmp[s].k = "fn" =>
        (Len(cmp[s].arg) >= 1 /\ \A i \in 1..Len(cmp[s].arg) : OkComplex(cmp[s].arg[i], FALSE))
OkComplex(c, top) ==
  /\ Len(c) >= 1
  /\ \A k \in 1..Len(c) : OkCompound(c[k].cmp)
  /\ Cardinality({k \in 1..Len(c) : c[k].cmp[1].k = "amp"}) <= 1
  /\ (c[1].comb # "" => (top /\ ~HasAmpComplex(c)))

WellFormed(lv) ==
  /\ \A n \in 1..Len(lv) : Len(lv[n]) >= 1 /\ \A i \in 1..Len(lv[n]) : OkComplex(lv[n][i], n > 1)
  /\ ~HasAmpList(lv[1])

---------------------------------------------------------------------------
(* Deviation compound_reordered: storage order of a compound selector       *)

Rank(k) == CASE k \in {"amp", "sfx", "elem"} -> 0 [] k = "ph" -> 1 [] k = "id" -> 2
             [] k = "class" -> 3 [] k = "attr" -> 4 [] OTHER -> 5

RECURSIVE CanonList(_), CanonCompound(_)
CanonCompound(cmp) ==
  LET deep   == Sq([s \in 1..Len(cmp) |-> IF cmp[s].k = "fn" THEN [cmp[s] EXCEPT !.arg = CanonList(cmp[s].arg)] ELSE cmp[s]])
  \* (until /repo 1596550 only the last id selector of a compound was stored; all of them are kept now)
  IN Cat(Sq([r \in 1..6 |-> Cat(Sq([s \in 1..Len(deep) |->
            IF Rank(deep[s].k) = r - 1 THEN <<deep[s]>> ELSE <<>>]))]))
CanonList(L) == Sq([i \in 1..Len(L) |-> Sq([k \in 1..Len(L[i]) |-> [comb |-> L[i][k].comb, cmp |-> CanonCompound(L[i][k].cmp)]])])

---------------------------------------------------------------------------
(* Nesting (C19).  P = resolved parent list (no `&`), L = inner list.       *)

MaxLen(ss) == IF Len(ss) = 0 THEN 0 ELSE LET n == {Len(ss[i]) : i \in 1..Len(ss)} IN CHOOSE m \in n : \A x \in n : x <= m

(* first elements of every sub-sequence first, then the second ones, ...   *)
FlattenV(ss) ==
  Cat(Sq([r \in 1..MaxLen(ss) |-> Cat(Sq([i \in 1..Len(ss) |-> IF Len(ss[i]) >= r THEN <<ss[i][r]>> ELSE <<>>]))]))

(* `&` followed by the rest of its compound, substituted into the last     *)
(* compound of one parent complex selector                                 *)
Attach(lastcmp, rest, Dev) ==
  LET base == IF Len(rest) > 0 /\ rest[1].k = "sfx" THEN
                  LET ls == lastcmp[Len(lastcmp)] IN
                  IF ls.k \in {"elem", "class", "id", "ph", "pseudo"}
                  THEN Front(lastcmp) \o <<[ls EXCEPT !.t = ls.t \o rest[1].t]>> \o Tail(rest)
                  ELSE IF "compound_reordered" \in Dev THEN <<PanicSimple>>   \* the re-parse of `[x]-y` fails
                  ELSE <<UndefSimple>>                                          \* Sass: an error; not constrained here
              ELSE lastcmp \o rest
      dd   == IF "amp_duplicate_merged" \in Dev
              THEN Cat(Sq([i \in 1..Len(base) |->
                      IF base[i].k \in {"class", "ph"} /\ \E j \in 1..(i - 1) : base[j].k = base[i].k /\ base[j].t = base[i].t
                      THEN <<>> ELSE <<base[i]>>]))
              ELSE base
  IN IF "compound_reordered" \in Dev THEN CanonCompound(dd) ELSE dd

WithComb(cx, comb) ==
  <<[comb |-> IF cx[1].comb = "" THEN comb ELSE cx[1].comb, cmp |-> cx[1].cmp]>> \o Tail(cx)

RECURSIVE ResolveList(_, _, _, _), ResolveComplex(_, _, _, _), ResolveCompound(_, _, _), Prod(_, _, _, _, _)

(* a compound -> the list of complex selectors it stands for *)
ResolveCompound(cmp, P, Dev) ==
  LET r == Sq([s \in 1..Len(cmp) |->
              IF cmp[s].k = "fn" /\ HasAmpList(cmp[s].arg)
              THEN [cmp[s] EXCEPT !.arg = ResolveList(cmp[s].arg, P, FALSE, Dev)]
              ELSE cmp[s]])
  IN IF r[1].k = "amp"
     THEN Sq([j \in 1..Len(P) |->
             LET o == P[j]  last == o[Len(o)] IN
             Front(o) \o <<[comb |-> last.comb, cmp |-> Attach(last.cmp, Tail(r), Dev)]>>])
     ELSE << <<[comb |-> "", cmp |-> r]>> >>

(* product over the components, earlier components vary slowest *)
Prod(c, k, acc, P, Dev) ==
  IF k > Len(c) THEN acc
  ELSE LET ch == ResolveCompound(c[k].cmp, P, Dev) IN
       Prod(c, k + 1,
            Cat(Sq([a \in 1..Len(acc) |-> Sq([b \in 1..Len(ch) |-> acc[a] \o WithComb(ch[b], c[k].comb)])])),
            P, Dev)

ResolveComplex(c, P, implicit, Dev) ==
  IF ~HasAmpComplex(c) THEN
       IF implicit
       THEN Sq([j \in 1..Len(P) |-> P[j] \o WithComb(c, "sp")])          \* `outer inner`
       ELSE <<c>>
  ELSE Prod(c, 1, << <<>> >>, P, Dev)

ResolveList(L, P, implicit, Dev) ==
  FlattenV(Sq([i \in 1..Len(L) |-> ResolveComplex(L[i], P, implicit, Dev)]))

(* P = <<>> is the root: nothing to combine with *)
Nest(P, L, Dev) == IF Len(P) = 0 THEN L ELSE ResolveList(L, P, TRUE, Dev)

---------------------------------------------------------------------------
(* Placeholder removal (C22).  A compound with a placeholder matches        *)
(* nothing; so does :is()/:where()/:has()/... of nothing; :not() of nothing *)
(* matches everything and disappears; an empty compound is `*`.            *)

NoneR == [none |-> TRUE, v |-> <<>>]

RECURSIVE NPList(_, _), NPComplex(_, _), NPCompound(_, _)
NPCompound(cmp, Dev) ==
  IF \E s \in 1..Len(cmp) : cmp[s].k = "ph" THEN NoneR
  ELSE LET parts == Sq([s \in 1..Len(cmp) |->
                IF cmp[s].k # "fn" THEN [drop |-> FALSE, none |-> FALSE, v |-> cmp[s]]
                ELSE LET a0 == NPList(cmp[s].arg, Dev)
                         \* deviation: inside :is() a complex selector whose first compound became
                         \* empty counts as starting with a combinator and is removed
                         a  == IF "not_placeholder_empty_compound" \in Dev /\ cmp[s].t = ":is("
                               THEN SelectSeq(a0, LAMBDA c : ~(Len(c) > 1 /\ Len(c[1].cmp) = 0))
                               ELSE a0 IN
                     IF Len(a) = 0
                     THEN (IF cmp[s].t \in NotToks THEN [drop |-> TRUE, none |-> FALSE, v |-> cmp[s]]
                                                   ELSE [drop |-> FALSE, none |-> TRUE, v |-> cmp[s]])
                     ELSE [drop |-> FALSE, none |-> FALSE, v |-> [cmp[s] EXCEPT !.arg = a]]])
       IN IF \E s \in 1..Len(cmp) : parts[s].none THEN NoneR
          ELSE LET kept == Cat(Sq([s \in 1..Len(cmp) |-> IF parts[s].drop THEN <<>> ELSE <<parts[s].v>>])) IN
               [none |-> FALSE,
                v |-> IF Len(kept) = 0 /\ "not_placeholder_empty_compound" \notin Dev THEN <<Star>> ELSE kept]

NPComplex(c, Dev) ==
  LET rs == Sq([k \in 1..Len(c) |-> NPCompound(c[k].cmp, Dev)]) IN
  IF \E k \in 1..Len(c) : rs[k].none THEN NoneR
  ELSE [none |-> FALSE, v |-> Sq([k \in 1..Len(c) |-> [comb |-> c[k].comb, cmp |-> rs[k].v]])]

NPList(L, Dev) ==
  Cat(Sq([i \in 1..Len(L) |-> LET r == NPComplex(L[i], Dev) IN IF r.none THEN <<>> ELSE <<r.v>>]))

NoPlaceholder(L) == NPList(L, {})

---------------------------------------------------------------------------
(* Printing: one string per complex selector; single spaces around          *)
(* combinators, ", " between the arguments of a pseudo-class.               *)

RECURSIVE JoinStr(_, _)
JoinStr(ss, sep) == IF Len(ss) = 0 THEN "" ELSE IF Len(ss) = 1 THEN ss[1] ELSE ss[1] \o sep \o JoinStr(Tail(ss), sep)

RECURSIVE PrintCompound(_), PrintComplex(_), PrintArgs(_)
PrintCompound(cmp) ==
  IF Len(cmp) = 0 THEN ""
  ELSE (IF cmp[1].k = "fn" THEN cmp[1].t \o PrintArgs(cmp[1].arg) \o ")" ELSE cmp[1].t) \o PrintCompound(Tail(cmp))

CombText(c) == IF c \in {"", "sp"} THEN "" ELSE c

(* the non-empty parts (combinator symbols, compound texts) joined by " "  *)
PrintComplex(c) ==
  LET parts == Cat(Sq([k \in 1..Len(c) |-> <<CombText(c[k].comb), PrintCompound(c[k].cmp)>>])) IN
  JoinStr(SelectSeq(parts, LAMBDA x : x # ""), " ")

PrintArgs(L) == JoinStr(Sq([i \in 1..Len(L) |-> PrintComplex(L[i])]), ", ")

(* the selector of an emitted rule; an entirely empty text is written `*`  *)
PrintRuleSel(L) ==
  LET ss == Sq([i \in 1..Len(L) |-> PrintComplex(L[i])]) IN
  IF Len(L) = 1 /\ Len(L[1]) = 1 /\ ss[1] = "" THEN <<"*">> ELSE ss

---------------------------------------------------------------------------
(* The observable of a nest  L1 { p1: v; L2 { p2: v; L3 { p3: v } } } :    *)
(* the emitted rules in order, each with its selector texts and the         *)
(* declaration it holds.                                                   *)

DeclName(n) == CASE n = 1 -> "p1" [] n = 2 -> "p2" [] n = 3 -> "p3" [] n = 4 -> "p4" [] OTHER -> "p5"

RECURSIVE Resolved(_, _, _)
(* Resolved(lv, n, Dev) = the unfiltered selector list of level n *)
Resolved(lv, n, Dev) == IF n = 1 THEN lv[1] ELSE Nest(Resolved(lv, n - 1, Dev), lv[n], Dev)

Observe(toks, Dev) ==
  LET lv0  == Levels(toks)
      lv   == IF "compound_reordered" \in Dev THEN Sq([n \in 1..Len(lv0) |-> CanonList(lv0[n])]) ELSE lv0
      res  == Sq([n \in 1..Len(lv) |-> Resolved(lv, n, Dev)])
      bad(k) == \E n \in 1..Len(lv) : AnyList(res[n], {k})
  IN IF ~WellFormed(lv0) THEN [st |-> "undef", rules |-> <<>>]
     ELSE IF bad("undef") THEN [st |-> "undef", rules |-> <<>>]
     \* the failed re-parse was a panic (resolve_ref unwrap) until /repo ad192b0; it is a compile error now
     ELSE IF bad("panic") THEN [st |-> "err", rules |-> <<>>]
     ELSE [st |-> "ok",
           rules |-> Cat(Sq([n \in 1..Len(lv) |->
                        LET np == NPList(res[n], Dev) IN
                        IF Len(np) = 0 THEN <<>> ELSE <<[sel |-> PrintRuleSel(np), d |-> DeclName(n)]>>]))]

AllDevs == {"compound_reordered", "amp_duplicate_merged", "not_placeholder_empty_compound"}

RECURSIVE SetToSeq(_)
SetToSeq(S) == IF S = {} THEN <<>> ELSE LET x == CHOOSE x \in S : TRUE IN <<x>> \o SetToSeq(S \ {x})

(* The pinned tree has all deviations at once.  When that changes the       *)
(* observable, the vector carries the observables predicted by the sets of  *)
(* deviations (minimal ones only): sequence of [d |-> names, o |-> obs].    *)
DevMap(toks, ideal) ==
  IF Observe(toks, AllDevs) = ideal THEN <<>>
  ELSE LET all  == {[ds |-> S, obs |-> Observe(toks, S)] : S \in (SUBSET AllDevs) \ {{}}}
           alts == {a \in all : a.obs # ideal /\ ~\E b \in all : b.ds # a.ds /\ b.ds \subseteq a.ds /\ b.obs = a.obs}
       IN SetToSeq({[d |-> SetToSeq(a.ds), o |-> a.obs] : a \in alts})

---------------------------------------------------------------------------
(* Laws of the ideal semantics, checked by TLC on every generated nest.     *)

RECURSIVE IsSubseq(_, _)
IsSubseq(a, b) == IF Len(a) = 0 THEN TRUE ELSE IF Len(b) = 0 THEN FALSE
                  ELSE IF a[1] = b[1] THEN IsSubseq(Tail(a), Tail(b)) ELSE IsSubseq(a, Tail(b))

Laws(toks) ==
  LET lv  == Levels(toks)
      res == Sq([n \in 1..Len(lv) |-> Resolved(lv, n, {})])
      undef == ~WellFormed(lv) \/ \E n \in 1..Len(lv) : AnyList(res[n], {"undef"})
  IN undef \/
  /\ \A n \in 1..Len(lv) : ~HasAmpList(res[n])                       \* no `&` survives resolution
  (* second, declarative formulation of the plain case: without `&` the   *)
  (* result is the outer-major product  outer[j] inner[i]                 *)
  /\ \A n \in 2..Len(lv) :
        (~HasAmpList(lv[n])) =>
           LET P == res[n - 1]  L == lv[n]  R == res[n] IN
           /\ Len(R) = Len(P) * Len(L)
           /\ \A j \in 1..Len(P) : \A i \in 1..Len(L) :
                 PrintComplex(R[(j - 1) * Len(L) + i]) = PrintComplex(P[j]) \o " " \o PrintComplex(L[i])
  (* no placeholder is ever printed; removal is idempotent, keeps text and order *)
  /\ \A n \in 1..Len(lv) :
        LET R == res[n]  np == NoPlaceholder(R) IN
        /\ ~AnyList(np, {"ph"})
        /\ NoPlaceholder(np) = np
        /\ Len(np) <= Len(R)
        /\ (~AnyList(R, {"fn"}) => IsSubseq(np, R))
        /\ (~AnyList(R, {"ph"}) => np = R)
=============================================================================
