SPECIFICATION Spec
CONSTANTS
  Leaves = {"decl", "atstmt", "loud"}
  Conts = {"rule", "nsprop", "media", "atrule", "mixin", "content", "if1", "each2", "import", "use", "loadcss"}
  MaxStmts = 4
  MaxDepth = 3
  Strict = FALSE
  Styles = {"expanded"}
  Need = {"decl", "atstmt", "loud", "atrule"}
  MaxOf <- LimC21
INVARIANTS InvLaws Emit21
CHECK_DEADLOCK FALSE
