SPECIFICATION Spec
CONSTANTS
  Files = {"r", "a", "b"}
  Root = "r"
  SubFiles = {"b"}
  MaxDepth = 8
  FileSeq <- Seq3
  MaxStmts = 1
  GenKinds = {"use", "forward", "import", "loadcss"}
  GenSpellings = {"plain", "ext"}
  DevChoices <- DevIdeal
  MaxFaultAt = 3
INVARIANTS UrlsResolve FaultReported NoErrWithoutFault LockDiscipline DepthBound LoopOnlyOnCycle NeverOverflow InitOnce OkOnlyAcyclic Emit
PROPERTY Termination
CHECK_DEADLOCK FALSE
