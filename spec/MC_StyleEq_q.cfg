SPECIFICATION Spec
CONSTANTS
  MaxItems = 1
  Sels = {"t", "desc", "child", "sib", "list", "cls", "dcls", "pseudo", "dpseudo", "id"}
  Vals = {"half", "halfpx", "neg", "ten", "pct", "red", "rgbf", "white", "short", "transp", "alpha", "idt", "str", "imp", "sp", "cm", "call", "slash", "url"}
  Kinds = {"rule", "rule2", "media", "import", "cmt"}
INVARIANT SameStylesheet
INVARIANT FaultsRejected
INVARIANT EmitVec
CHECK_DEADLOCK FALSE
