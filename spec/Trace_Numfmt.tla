---------------------------- MODULE Trace_Numfmt ----------------------------
(* Trace validation for C10.  Every recorded event carries one f64 (its     *)
(* exact decimal expansion as digit sequences, fraction truncated to 40     *)
(* digits + sticky flag), the output format, and the numeral rsass printed. *)
(* The numeral is recomputed here digit by digit (Numfmt!Numeral); an event *)
(* is explained by the ideal definition, or - reported as KNOWN - by the    *)
(* smallest set of deviations listed as open findings that predicts it.     *)
EXTENDS Numfmt, Json, IOUtils, TLCExt

Rec == ndJsonDeserialize(IOEnv.TRACE)

VARIABLE l
Init == l = 1

SeqToSet(s) == {s[i] : i \in DOMAIN s}

Input(e) == [cls |-> e.cls, neg |-> e.neg, ip |-> e.ip, fp |-> e.fp, sticky |-> e.sticky, p |-> e.p, style |-> e.style]

Explained(e) ==
  LET x == Input(e)
      o == e.obs IN
  IF o = Numeral(x, {}) THEN TRUE
  ELSE IF Huge(x) THEN o.k = "num" /\ HugeAccept(x, o)
  ELSE LET cands == {S \in SUBSET (SeqToSet(e.devs) \cap AllDevs) : S # {} /\ Predicts(x, S, o)} IN
       /\ cands # {}
       /\ LET S == CHOOSE S \in cands : \A T \in cands : Cardinality(S) <= Cardinality(T) IN
          \A d \in S : PrintT(<<"MSG", "KNOWN", d, e.case>>)

Next == /\ l <= Len(Rec)
        /\ Explained(Rec[l]) = TRUE      \* as a value: evaluated once, not split into sub-actions
        /\ l' = l + 1
Spec == Init /\ [][Next]_l

Accepted == IF TLCGet("stats").diameter - 1 = Len(Rec) THEN TRUE
            ELSE PrintT(<<"UNMATCHED", TLCGet("stats").diameter>>) /\ FALSE
=============================================================================
