SPECIFICATION Spec
CONSTANTS
  Vars = {"x"}
  Flags = {"none", "inc"}
  OpenKinds = {"rule", "if", "for", "content"}
  BoundKinds = {"each", "lmixind", "lfunctiond"}
  MaxLen = 7
  MaxDepth = 3
  CheckDev = {}
  FreshOnly = FALSE
INVARIANTS LawsHold LawWellFormed Emit
CHECK_DEADLOCK FALSE
