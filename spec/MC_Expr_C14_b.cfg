SPECIFICATION Spec
CONSTANTS
  Operands = {"true", "false", "null", "0", "str_x", "()", "fx()", "ferr()"}
  Ops = {"and", "or"}
  Uns = {"not"}
  MaxOps = 2
  MaxUn = 1
  MaxPar = 1
INVARIANTS LawParenStable LawWellShaped LawTotal Emit
CHECK_DEADLOCK FALSE
