------------------------------- MODULE Reach -------------------------------
(***************************************************************************)
(* What evaluation reaches: comments (C36) and marked content (C21).        *)
(*                                                                         *)
(* A program is a flat sequence of statements [k, id] with open/close.      *)
(* Leaves:                                                                  *)
(*   loud / loudi   /* c<id> */    /* c<id> #{1 + 1} */                     *)
(*   bang / bangi   /*! c<id> */   /*! c<id> #{1 + 1} */                    *)
(*   silent         // c<id>                                                *)
(*   loud comments whose text starts unusually (text after /* shown):       *)
(*   l_sph " #c<id>"   l_h "#c<id>"   l_star "* c<id>"   l_slash "/ c<id>"  *)
(*   l_i0 "#{1 + 1} c<id>"   l_ih " #{$col} c<id>"   l_ihd "#{$col} c<id>"  *)
(*   ($col: #abc)   l_nl "<newline>n c<id>"   l_nlh "<newline># c<id>"      *)
(*   decl           m<id>: v;          atstmt   @m<id> x;                   *)
(*   error          @error "boom";                                          *)
(* Containers (closed by "close"):                                          *)
(*   rule .r<id> {        nsprop  font: {       media  @media screen {      *)
(*   atrule @m<id> x {  (an at-rule with a block; itself marked content)    *)
(*   mixin   @mixin x<id> { .. }  @include x<id>;                           *)
(*   content @include wrap { .. }      (wrap = @mixin wrap { @content })    *)
(*   if1 @if true {    if0 @if false {    else @if false {} @else {         *)
(*   each2 @each $i in 1 2 {   for2 @for $i from 1 through 2 {              *)
(*   while2  $w: 0; @while $w < 2 { $w: $w + 1; ..                          *)
(*   func    @function f<id>() { .. @return 1 }  $r: f<id>();               *)
(*   import / use / loadcss    the body is the file f<id>.scss, loaded here *)
(* Inside a loop every marker / comment carries the loop value:             *)
(* m<id>-#{$i}, so each reached instance is distinct (m3-1, m3-2).          *)
(*                                                                         *)
(* Run(prog) interprets the program the way Sass evaluates it: blocks once, *)
(* @if by its condition, loops twice, mixin/function/content/file bodies    *)
(* when called/loaded, nothing after a reached @error.  It yields           *)
(*   err       1 iff an @error was reached                                  *)
(*   reached   the marked declarations, at-rules and loud comments reached  *)
(*   comments  the comments reached, in order, [t |-> text, bang |-> 0/1]   *)
(*   lost      (deviation nsrule_atrule_swallowed) content that the pinned  *)
(*             tree drops: everything inside an at-rule block that sits     *)
(*             directly in a nested-property block                          *)
(*                                                                         *)
(* C36: expanded output has every reached loud comment in order with the    *)
(*      interpolation evaluated; compressed only the /*! ones; // never.    *)
(* C21: result = error, or every reached marker is in the output; a reached *)
(*      @error => error.  Which placements are legal is NOT decided here.   *)
(*                                                                         *)
(* Named deviations:                                                        *)
(*   bang_comment_dropped_compressed   compressed output has no comments    *)
(*   nsrule_atrule_swallowed  NsRuleDest rejects the at-rule when it is     *)
(*       finished; the Drop impl prints to stderr and compilation succeeds  *)
(*   hash_comment_dropped  Comment::write drops every comment whose text    *)
(*       starts with `#` (Sass: only `# sourceMappingURL=` / `# sourceURL=`) *)
(*   atrule_decls_hoisted  (the C20 defect seen through comments) what is   *)
(*       written directly inside an at-rule block nested in a style rule is *)
(*       collected in one rule placed at the FRONT of the block: a comment  *)
(*       after a nested rule is emitted before that rule's comments         *)
(***************************************************************************)
EXTENDS Integers, Sequences, FiniteSets, TLC

Stmt(k, id) == [k |-> k, id |-> id]

FormKinds    == {"l_sph", "l_h", "l_star", "l_slash", "l_i0", "l_ih", "l_ihd", "l_nl", "l_nlh"}
CommentKinds == {"loud", "loudi", "bang", "bangi", "silent"} \cup FormKinds
(* the evaluated text starts directly with `#` (no white space before it) *)
HashFirst(k) == k \in {"l_h", "l_ihd"}
MarkKinds    == {"decl", "atstmt"}
LoopKinds    == {"each2", "for2", "while2"}
OnceKinds    == {"rule", "nsprop", "media", "atrule", "mixin", "content", "if1", "else", "func", "import", "use", "loadcss"}
DestKinds    == {"rule", "nsprop", "media", "atrule"}      \* containers that open an output destination

IdStr(n) == CASE n = 0 -> "0" [] n = 1 -> "1" [] n = 2 -> "2" [] n = 3 -> "3" [] n = 4 -> "4" [] n = 5 -> "5"
              [] n = 6 -> "6" [] n = 7 -> "7" [] n = 8 -> "8" [] OTHER -> "9"

(* the comment text with white space collapsed and trimmed *)
Prefix(k) ==
  CASE k \in {"bang", "bangi"} -> "! "
    [] k \in {"l_sph", "l_h"}   -> "#"
    [] k = "l_star"  -> "* "
    [] k = "l_slash" -> "/ "
    [] k = "l_i0"    -> "2 "
    [] k \in {"l_ih", "l_ihd"}  -> "#abc "
    [] k = "l_nl"    -> "n "
    [] k = "l_nlh"   -> "# "
    [] OTHER         -> ""

CommentText(st, sfx) ==
  Prefix(st.k) \o "c" \o IdStr(st.id) \o sfx \o (IF st.k \in {"loudi", "bangi"} THEN " 2" ELSE "")

RECURSIVE MatchClose(_, _, _)
(* index of the close that ends the block whose body starts at j *)
MatchClose(prog, j, depth) ==
  IF j > Len(prog) THEN j
  ELSE IF prog[j].k = "close" THEN (IF depth = 0 THEN j ELSE MatchClose(prog, j + 1, depth - 1))
  ELSE IF prog[j].k \in (OnceKinds \cup LoopKinds \cup {"if0"}) THEN MatchClose(prog, j + 1, depth + 1)
  ELSE MatchClose(prog, j + 1, depth)

Acc0 == [err |-> 0, reached |-> <<>>, comments |-> <<>>, hoist |-> <<>>, lost |-> <<>>]

(* dests: the kinds of the destination-opening containers around the         *)
(* statement, outermost first; swallowed = an at-rule block directly in a   *)
(* nested-property block is among them                                      *)
Swallowed(dests) == \E i \in 1..(Len(dests) - 1) : dests[i] = "nsprop" /\ dests[i + 1] \in {"media", "atrule"}

RECURSIVE OwnsRule(_)
(* does the innermost at-rule destination own a copy of a style rule's selector? *)
OwnsRule(dests) ==
  IF Len(dests) = 0 THEN FALSE
  ELSE LET k == dests[Len(dests)] IN
       IF k = "rule" THEN TRUE
       ELSE IF k \in {"media", "atrule"} THEN OwnsRule(SubSeq(dests, 1, Len(dests) - 1))
       ELSE FALSE

RECURSIVE Exec(_, _, _, _, _, _, _, _)
(* execute the statements j..last (a block body).  mode "h": the innermost   *)
(* destination hoists what is written directly in it (deviation), so such    *)
(* comments are collected in acc.hoist instead of acc.comments.              *)
Exec(prog, j, last, sfx, dests, mode, acc, Dev) ==
  IF j > last \/ acc.err = 1 THEN acc
  ELSE LET st == prog[j] IN
       IF st.k \in CommentKinds THEN
            Exec(prog, j + 1, last, sfx, dests, mode,
                 IF st.k = "silent" THEN acc
                 ELSE LET name == "c" \o IdStr(st.id) \o sfx
                          c == [t |-> CommentText(st, sfx), bang |-> IF st.k \in {"bang", "bangi"} THEN 1 ELSE 0,
                                hash |-> IF HashFirst(st.k) THEN 1 ELSE 0] IN
                      [acc EXCEPT !.comments = IF mode = "h" THEN @ ELSE Append(@, c),
                                  !.hoist = IF mode = "h" THEN Append(@, c) ELSE @,
                                  !.reached = Append(@, name),
                                  !.lost = IF Swallowed(dests) THEN Append(@, name) ELSE @],
                 Dev)
       ELSE IF st.k \in MarkKinds THEN
            LET name == "m" \o IdStr(st.id) \o sfx IN
            Exec(prog, j + 1, last, sfx, dests, mode,
                 [acc EXCEPT !.reached = Append(@, name), !.lost = IF Swallowed(dests) THEN Append(@, name) ELSE @], Dev)
       ELSE IF st.k = "error" THEN [acc EXCEPT !.err = 1]
       ELSE \* a container: body = j+1 .. e-1
            LET e  == MatchClose(prog, j + 1, 0)
                nd == IF st.k \in DestKinds THEN Append(dests, st.k) ELSE dests
                \* a style rule / at-rule block is an item of its own in the output: its comments are
                \* collected separately and appended as a whole; nested-property blocks and the
                \* control-flow / mixin containers write into the destination around them
                item == st.k \in {"rule", "media", "atrule"}
                nm == IF ~item THEN mode
                      ELSE IF st.k \in {"media", "atrule"} /\ "atrule_decls_hoisted" \in Dev /\ OwnsRule(nd) THEN "h" ELSE "n"
                a0 == IF st.k = "atrule"
                      THEN LET name == "m" \o IdStr(st.id) \o sfx IN
                           [acc EXCEPT !.reached = Append(@, name), !.lost = IF Swallowed(nd) THEN Append(@, name) ELSE @]
                      ELSE acc
                ain == IF item THEN [a0 EXCEPT !.comments = <<>>, !.hoist = <<>>] ELSE a0
                a1 == IF st.k = "if0" THEN ain
                      ELSE IF st.k \in LoopKinds
                      THEN Exec(prog, j + 1, e - 1, sfx \o "-2", nd, nm, Exec(prog, j + 1, e - 1, sfx \o "-1", nd, nm, ain, Dev), Dev)
                      ELSE Exec(prog, j + 1, e - 1, sfx, nd, nm, ain, Dev)
                a2 == IF item THEN [a1 EXCEPT !.comments = a0.comments \o a1.hoist \o a1.comments, !.hoist = a0.hoist] ELSE a1
            IN Exec(prog, e + 1, last, sfx, dests, mode, a2, Dev)

RunDev(prog, Dev) == Exec(prog, 1, Len(prog), "", <<>>, "n", Acc0, Dev)
Run(prog) == RunDev(prog, {})

---------------------------------------------------------------------------
(* C36: the comment sequence of the output                                  *)

Comments36(prog, style, Dev) ==
  LET r  == RunDev(prog, Dev)
      cs == IF "hash_comment_dropped" \in Dev THEN SelectSeq(r.comments, LAMBDA c : c.hash = 0) ELSE r.comments
  IN
  IF style = "compressed"
  THEN (IF "bang_comment_dropped_compressed" \in Dev THEN <<>>
        ELSE LET b == SelectSeq(cs, LAMBDA c : c.bang = 1) IN [i \in 1..Len(b) |-> b[i].t])
  ELSE [i \in 1..Len(cs) |-> cs[i].t]

Observe36(prog, style, Dev) == [st |-> "ok", comments |-> Comments36(prog, style, Dev)]

AllDevs36 == {"bang_comment_dropped_compressed", "atrule_decls_hoisted", "hash_comment_dropped"}

RECURSIVE SetToSeq36(_)
SetToSeq36(S) == IF S = {} THEN <<>> ELSE LET x == CHOOSE x \in S : TRUE IN <<x>> \o SetToSeq36(S \ {x})

(* the observables predicted by the sets of deviations that change the result: [d |-> names, o |-> obs] *)
DevMap36(prog, style, ideal) ==
  IF Observe36(prog, style, AllDevs36) = ideal THEN <<>>
  ELSE SetToSeq36({a \in {[d |-> SetToSeq36(S), o |-> Observe36(prog, style, S)] : S \in (SUBSET AllDevs36) \ {{}}} : a.o # ideal})

---------------------------------------------------------------------------
(* C21: the acceptance relation between a program and an observation        *)
(*      obs = [st |-> "ok" | "err" | ..., present |-> markers in the output] *)

SeqSet(s) == {s[i] : i \in 1..Len(s)}

Accept21(prog, obs) ==
  LET r == Run(prog) IN
  \/ obs.st = "err"
  \/ /\ obs.st = "ok" /\ r.err = 0
     /\ SeqSet(r.reached) \subseteq SeqSet(obs.present)

(* what the deviation predicts: success, with exactly the swallowed content missing *)
Swallow21(prog, obs) ==
  LET r == Run(prog) IN
  /\ obs.st = "ok" /\ r.err = 0
  /\ SeqSet(r.lost) # {}
  /\ SeqSet(obs.present) \cap SeqSet(r.reached) = SeqSet(r.reached) \ SeqSet(r.lost)

---------------------------------------------------------------------------
(* Laws of the interpreter, checked by TLC on every generated program       *)

LawsReach(prog) ==
  LET r == Run(prog) IN
  /\ r.err \in {0, 1}
  /\ Len(r.comments) <= Len(r.reached)
  /\ SeqSet(r.lost) \subseteq SeqSet(r.reached)
  \* every reached instance is distinct (loops tag their iterations)
  /\ Cardinality(SeqSet(r.reached)) = Len(r.reached)
  \* nothing is reached unless it is written in the program
  /\ ((~\E j \in 1..Len(prog) : prog[j].k \in (CommentKinds \ {"silent"}) \cup MarkKinds \cup {"atrule"}) => Len(r.reached) = 0)
  /\ ((~\E j \in 1..Len(prog) : prog[j].k = "error") => r.err = 0)
  \* compressed comments are a subsequence of the expanded ones and all carry the bang
  /\ Len(Comments36(prog, "compressed", {})) <= Len(Comments36(prog, "expanded", {}))
=============================================================================
