SPECIFICATION Spec
CONSTANTS
  MaxItems = 2
  KS = {"r_class", "r_id", "r_attr", "r_pseudo", "r_desc", "d_ident", "d_str", "d_num", "d_hex", "d_urlq", "d_url", "d_call", "media", "supports", "fontface", "keyframes", "comment"}
  CS = {"ascii", "latin1", "bmpsym", "astral", "astralsym", "private", "combining", "dquote", "quotes2", "backslash", "control", "newline", "space"}
  SH = {"mid"}
  CT = {}
  FN = {}
INVARIANT Generated
INVARIANT EmitVec
CHECK_DEADLOCK FALSE
