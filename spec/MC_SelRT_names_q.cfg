SPECIFICATION Spec
CONSTANTS
  Mode = "names"
  MaxLen = 2
  Kinds = {"raw", "bs", "hex", "hex6"}
INVARIANTS SpecRoundTrip Emit
CHECK_DEADLOCK FALSE
