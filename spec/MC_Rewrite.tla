----------------------------- MODULE MC_Rewrite -----------------------------
(* Generator for C35: programs are sequences of statement templates (builder*)
(* steps), followed by a chain of at most MaxRw rewrites.  The law          *)
(* Result(cur) = Result(orig) is an invariant of every state of the chain;  *)
(* every rewritten program is printed with its original for the binding.    *)
EXTENDS Rewrite, Json

CONSTANTS Pool,       \* template indexes the builder may use
          MaxStmts, MaxRw,
          Kinds,      \* rewrite names allowed in this configuration
          Unguarded   \* TRUE only in the negative configuration: also rename functions whose calls may run before the declaration

VARIABLES orig, cur, hist, phase
vars == <<orig, cur, hist, phase>>

X == N("x", 0)  Y == N("y", 0)  L1 == N("l", 0)  PA == N("p", 0)  FN == N("f", 0)  MX == N("m", 0)
VarS(n, v) == [t |-> "var", n |-> n, v |-> v]
Decl(p, v) == [t |-> "decl", p |-> p, v |-> v]
Inc(n) == [t |-> "inc", n |-> n]
Rule(sel, body) == [t |-> "rule", sel |-> sel, body |-> body]

Templates == <<
  VarS(X, <<Lit("a")>>),
  VarS(X, <<Lit("b"), Lit("c")>>),
  VarS(Y, <<Var(X), Lit("2px")>>),
  [t |-> "fn", n |-> FN, p |-> PA, pre |-> <<>>, ret |-> <<Var(PA), Var(X)>>],
  [t |-> "fn", n |-> FN, p |-> PA, pre |-> <<VarS(L1, <<Lit("k"), Var(PA)>>)>>, ret |-> <<Var(L1)>>],
  [t |-> "mixin", n |-> MX, body |-> <<Decl("d", <<Var(X)>>)>>],
  [t |-> "mixin", n |-> MX, body |-> <<VarS(L1, <<Lit("e")>>), Decl("g", <<Var(L1), Lit("1")>>)>>],
  Rule("a", <<Decl("c", <<Var(X)>>)>>),
  Rule("a", <<Decl("c", <<Call(FN, Lit("1"))>>), Decl("e", <<Lit("g")>>)>>),
  Rule("b", <<Inc(MX)>>),
  Rule(".k", <<VarS(L1, <<Var(X)>>), Decl("c", <<Var(L1), Call(FN, Var(Y))>>)>>),
  Rule("b", <<Decl("c", <<Var(Y)>>), Inc(MX)>>)
>>

Empty == [main |-> <<>>, part |-> <<>>, triv |-> <<>>]
Init == orig = Empty /\ cur = Empty /\ hist = <<>> /\ phase = "build"

AddStmt == /\ phase = "build" /\ Len(orig.main) < MaxStmts
           /\ \E i \in Pool \cap DOMAIN Templates :
                /\ orig' = [orig EXCEPT !.main = Append(@, Templates[i])]
                /\ cur' = orig'
           /\ UNCHANGED <<hist, phase>>

Start == /\ phase = "build" /\ Len(orig.main) >= 1
         /\ phase' = "rw"
         /\ UNCHANGED <<orig, cur, hist>>

Apply == /\ phase = "rw" /\ Len(hist) < MaxRw
         /\ \E r \in Rewrites(cur) :
              /\ r.rw \in Kinds
              /\ cur' = r.p
              /\ hist' = Append(hist, r.rw)
         /\ UNCHANGED <<orig, phase>>

(* the same renaming WITHOUT the side condition CallAlwaysDeclared: not meaning-preserving, *)
(* TLC must find InvPreserved violated (MC_Rewrite_neg.cfg)                                  *)
ApplyUnguarded == /\ Unguarded /\ phase = "rw" /\ Len(hist) < MaxRw
                  /\ \E f \in DeclaredFns(cur) :
                       /\ cur' = Rename(cur, "fn", f, "g")
                       /\ hist' = Append(hist, "RenameFnUnguarded")
                  /\ UNCHANGED <<orig, phase>>

Next == AddStmt \/ Start \/ Apply \/ ApplyUnguarded
Spec == Init /\ [][Next]_vars

(* the law, in every state of every chain *)
InvPreserved == phase = "rw" => Preserved(orig, cur)
(* the evaluator is not vacuous: the original of a printed pair is a program *)
InvShape == phase = "rw" => (Result(orig).err \in {0, 1} /\ Len(Toks(cur.main)) >= 3)

Emit == (phase = "rw" /\ hist # <<>>) =>
  PrintT(<<"VEC", ToJson([omain |-> Toks(orig.main), cmain |-> Toks(cur.main), cpart |-> Toks(cur.part),
                          triv |-> cur.triv, rws |-> hist, expect |-> Result(orig)])>>)
=============================================================================
