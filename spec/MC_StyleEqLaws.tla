--------------------------- MODULE MC_StyleEqLaws ---------------------------
(* C08: the laws of StyleEquiv on the universe of one-item stylesheets (all selector kinds, all value   *)
(* kinds): it is the kernel of the normal form (an equivalence), and it relates the expanded rendering *)
(* of x and the compressed rendering of y exactly when x and y are the same stylesheet.  The ASSUMEs   *)
(* are evaluated by TLC when the module is loaded; the behaviour spec is trivial.                      *)
EXTENDS MC_StyleEq

(* ---- laws on the one-item universe ------------------------------------------------------------ *)
U1 == {<<Item("rule", s, "idt", "-")>> : s \in SelKinds} \cup {<<Item("rule", "t", a, "-")>> : a \in ValKinds}
      \cup {<<Item("media", "t", "half", "-")>>, <<Item("import", "-", "-", "-")>>, <<Item("cmt", "-", "-", "-")>>,
            <<Item("rule2", "t", "idt", "str")>>, <<Item("rule2", "t", "str", "idt")>>, <<Item("cmt", "-", "-", "-"), Item("rule", "t", "idt", "-")>>}
R1 == {WE(x) : x \in U1} \cup {WC(x) : x \in U1}
N1 == [r \in R1 |-> NormTop(r, {})]

(* StyleEquiv is an equivalence on the universe.  Rel is the relation as computed by StyleEquiv for every  *)
(* ordered pair (a constant: TLC evaluates it once); the laws are stated on it.                              *)
US == {x \in U1 : Len(x) = 1 => (x[1].s \in {"-", "t", "desc", "dcls", "cls"} /\ x[1].a \in {"-", "idt", "half", "red", "rgbf", "white", "transp", "str", "imp"})}
RS == {WE(x) : x \in US} \cup {WC(x) : x \in US}
Rel == [r \in RS |-> {q \in RS : StyleEquiv(r, q)}]
ASSUME Equivalence ==
  /\ \A r \in RS : r \in Rel[r]                                           \* reflexive
  /\ \A r, q \in RS : (q \in Rel[r]) <=> (r \in Rel[q])                    \* symmetric
  /\ \A r \in RS : \A q \in Rel[r] : Rel[q] \subseteq Rel[r]               \* transitive
  /\ \A r, q \in RS : (q \in Rel[r]) <=> (N1[r] = N1[q])                   \* it is the kernel of the normal form
  /\ \E r, q \in RS : q \notin Rel[r]                                      \* and not trivial
ASSUME Discriminates ==
  \A x, y \in U1 : StyleEquiv(WE(x), WC(y)) <=> (Canon(x) = Canon(y))

LawsChecked == TRUE
=============================================================================
