SPECIFICATION Spec
CONSTANTS
  ProgPool = {"r_third", "r_long", "r_color", "r_nest", "r_var", "r_fn", "r_mixin", "r_list", "r_str", "r_each", "r_err", "r_empty", "r_uni"}
  ValuePool = {"v_third", "v_slash", "v_long", "v_sum", "v_red", "v_hex", "v_rgba", "v_hsl", "v_dark", "v_qstr", "v_ustr", "v_comma", "v_plist", "v_space", "v_call", "v_em", "v_tiny", "v_exp", "v_calc", "v_true", "v_concat", "v_if", "v_div", "v_neg", "v_pct", "v_big", "v_map", "v_null", "v_bad"}
  BytePool = {"plain", "bom", "crlf", "nonl", "nul", "bad_utf8", "charset", "empty"}
  MaxItems = 3
INVARIANTS InvAgreement Emit
CHECK_DEADLOCK FALSE
