---------------------------- MODULE Trace_Strings ----------------------------
(* Trace validation for C26: every recorded call                            *)
(* {fn, s, q, x, xq, i, j, obs, devs, case} of a sass:string function must   *)
(* be explained by Strings!Apply - the ideal functions, or a deviation      *)
(* listed as an open finding (then it is reported).                         *)
EXTENDS Strings, Json, IOUtils, TLCExt

Rec == ndJsonDeserialize(IOEnv.TRACE)

VARIABLE l
Init == l = 1

SeqToSet(q) == {q[i] : i \in DOMAIN q}

CallOf(e) == [fn |-> e.fn, s |-> e.s, q |-> e.q, x |-> e.x, xq |-> e.xq, i |-> e.i, j |-> e.j]

Explained(e) ==
  LET a == CallOf(e)
      ideal == Apply(a, {}) IN
  IF ideal.k = "undef" THEN TRUE
  ELSE IF e.obs = ideal THEN TRUE
  ELSE \E d \in SeqToSet(e.devs) :
         LET o == Apply(a, {d}) IN
         /\ o # ideal
         /\ e.obs = o
         /\ PrintT(<<"MSG", "KNOWN", d, e.case>>)

Next == /\ l <= Len(Rec)
        /\ Explained(Rec[l]) = TRUE
        /\ l' = l + 1
Spec == Init /\ [][Next]_l

Accepted == IF TLCGet("stats").diameter - 1 = Len(Rec) THEN TRUE
            ELSE PrintT(<<"UNMATCHED", TLCGet("stats").diameter>>) /\ FALSE
=============================================================================
