---------------------------- MODULE Trace_Framing ----------------------------
(* C07, Flow B: the output byte stream of rsass IS the trace.  One event per   *)
(* successful output: {case, style, toks, devs}; toks = the token-class         *)
(* records of the bytes (engines/csstok.py frame_tokens).  The event is          *)
(* explained iff the framing automaton, run over toks with its Step action,     *)
(* ends in an accepting state for that style.                                    *)
EXTENDS Framing, Json, IOUtils, TLC, TLCExt

Rec == ndJsonDeserialize(IOEnv.TRACE)

VARIABLE l
Init == l = 1

SeqToSet(q) == {q[i] : i \in DOMAIN q}

(* e.smarks: the tokens of the SOURCE text that are unterminated (flag 4) or carry bracket/quote      *)
(* characters as data (flag 8)                                                                        *)
Tainted(e) == \E i \in DOMAIN e.smarks : Carries(e.smarks[i])
SrcOpenComment(e) == \E i \in DOMAIN e.smarks : e.smarks[i].c = "comment" /\ Unterm(e.smarks[i])

(* ideal automaton first; then what the property does not constrain (the user's own unbalanced text);   *)
(* then the deviations that are OPEN findings (e.devs), reported as KNOWN                               *)
Explained(e) ==
  LET s == Run(e.toks) IN
  IF Accept(e.style, s) THEN TRUE
  ELSE IF Tainted(e) /\ Why(e.style, s) \in BalanceVerdicts THEN PrintT(<<"MSG", "SKIP", "user_text", e.case>>)
  ELSE LET D  == SeqToSet(e.devs) \cap Deviations
           sd == RunD(e.toks, D) IN
       IF "atrule_prelude_newline" \in D /\ Accept(e.style, sd)
          THEN PrintT(<<"MSG", "KNOWN", "atrule_prelude_newline", e.case>>)
       ELSE IF "unterminated_comment_accepted" \in D /\ SrcOpenComment(e) /\ Why(e.style, sd) = "unterminated"
          THEN PrintT(<<"MSG", "KNOWN", "unterminated_comment_accepted", e.case>>)
       ELSE PrintT(<<"MSG", "REJECT", e.case, e.style, Why(e.style, s)>>) /\ FALSE

Next == /\ l <= Len(Rec)
        /\ Explained(Rec[l]) = TRUE
        /\ l' = l + 1
Spec == Init /\ [][Next]_l

Accepted == IF TLCGet("stats").diameter - 1 = Len(Rec) THEN TRUE
            ELSE PrintT(<<"UNMATCHED", TLCGet("stats").diameter>>) /\ FALSE
=============================================================================
