----------------------------- MODULE MC_Resolve -----------------------------
(* Generator for the resolution cases: either every subset of the           *)
(* candidates in the importer's directory (Mode = "dir"), or every set of   *)
(* at most MaxFiles files spread over all locations (Mode = "spread",       *)
(* built in one canonical order).                                           *)
EXTENDS Resolve, Json

CONSTANTS Mode, MaxFiles, GenKinds, GenWhere,
          GenPre        \* where a PRECEDING load of another url `w` is satisfied ("none": no preceding load)

VARIABLES kind, where, present, last, done, pre
vars == <<kind, where, present, last, done, pre>>

LocSeq == <<"dir", "lp1", "lp2", "lp1s", "lp2s">>
PairOf(n) == <<LocSeq[((n - 1) \div 10) + 1], ((n - 1) % 10) + 1>>
ValidPair(p, k, w) == p[2] <= NCand(k) /\ p[1] \in AllLocs(w)

Init == /\ kind \in GenKinds /\ where \in GenWhere /\ pre \in GenPre
        /\ last = 0 /\ done = FALSE
        /\ IF Mode = "dir"
           THEN present \in SUBSET ({"dir"} \X (1..NCand(kind)))
           ELSE present = {}

Add == /\ Mode = "spread" /\ ~done /\ Cardinality(present) < MaxFiles
       /\ \E n \in (last + 1)..50 :
            /\ ValidPair(PairOf(n), kind, where)
            /\ present' = present \cup {PairOf(n)}
            /\ last' = n
       /\ UNCHANGED <<kind, where, done, pre>>

Finish == /\ ~done /\ done' = TRUE /\ UNCHANGED <<kind, where, present, last, pre>>

Next == Add \/ Finish
Spec == Init /\ [][Next]_vars

Laws == done => /\ LawDirFirst(kind, where, present)
                /\ LawFirstExisting(kind, where, present)
                /\ LawIgnoresForeign(kind, where, present)

SetToSeq(S) == LET RECURSIVE F(_)
                   F(T) == IF T = {} THEN <<>> ELSE LET x == CHOOSE x \in T : TRUE IN <<x>> \o F(T \ {x})
               IN F(S)

(* Mode = "plain": no file exists at all, one vector per kind and URL class  *)
EmitPlain == (done /\ Mode = "plain") =>
   \A c \in UrlClasses :
      PrintT(<<"VEC", ToJson([kind |-> kind, where |-> where, cls |-> c, present |-> <<>>,
                              expect |-> Unfound(kind, c), dev |-> {}])>>)

(* Mode = "fault": URL classes x every loader call index x fault kind (C39)  *)
EmitFault == (done /\ Mode = "fault") =>
   \A c \in UrlClasses, pr \in {0, 1}, fk \in {"find", "read"} : \A at \in 0..UnfoundCalls(kind, c) :
      (pr = 1 => c = "css") =>
      PrintT(<<"VEC", ToJson([kind |-> kind, cls |-> c, present |-> pr, fault |-> [at |-> at, kind |-> fk],
                              calls |-> UnfoundCalls(kind, c),
                              expect |-> FaultOutcome(kind, c, pr, at, fk)])>>)

(* resolution is a function of the url, the importer and the file system:   *)
(* a preceding load (field pre) never changes the winner                     *)
Emit == (done /\ Mode \notin {"plain", "fault"}) => PrintT(<<"VEC", ToJson([kind |-> kind, where |-> where, pre |-> pre,
                                        present |-> SetToSeq({[loc |-> p[1], idx |-> p[2]] : p \in present}),
                                        expect |-> Winner(kind, where, present, {}),
                                        dev |-> DevMap(kind, where, present)])>>)
=============================================================================
