SPECIFICATION Spec
CONSTANTS
  WMax = 2
  BigWs <- BigWs_deep
  Ms = {16, 17}
  KStep = 202
  Ps = {0, 1, 10, 13, 14, 15, 16, 17, 18, 20}
  Styles = {"expanded", "compressed"}
  Negs = {0, 1}
INVARIANTS Laws DevsBreakLaw Emit
CHECK_DEADLOCK FALSE
