------------------------------- MODULE MC_Cli -------------------------------
EXTENDS Cli, Json
CONSTANTS MaxFiles
RECURSIVE SeqsOf(_)
SeqsOf(n) == IF n = 0 THEN {<<>>} ELSE {Append(s, k) : s \in SeqsOf(n - 1), k \in Kinds}
AllSeqs == UNION {SeqsOf(n) : n \in 1..MaxFiles}
VARIABLES style, precision
Init == /\ \E fs \in AllSeqs, lay \in Layouts : CInit(fs, lay)
        /\ style \in {"expanded", "compressed"} /\ precision \in {0, 5, 12}
Next == CNext /\ UNCHANGED <<style, precision>>
Spec == Init /\ [][Next]_<<cvars, style, precision>>
Emit == exit # -1 => PrintT(<<"VEC", ToJson([files |-> files, layout |-> layout, style |-> style, precision |-> precision,
                                             expect |-> [exit |-> exit, emitted |-> emitted,
                                                         deps |-> [k \in DOMAIN files |-> DepSeen(files[k], layout)]]])>>)
=============================================================================
