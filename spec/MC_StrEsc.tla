----------------------------- MODULE MC_StrEsc -----------------------------
(* Bounded-exhaustive generator for C27: a quoted literal is built code     *)
(* point by code point, each written in one of its spellings (raw,          *)
(* backslash + character, hex escape short / 6 digits / upper case, with    *)
(* space, tab or nothing as terminator), optionally with a backslash-       *)
(* newline continuation.  TLC thereby enumerates many spellings of the same *)
(* content, checks that CssDecode recovers the content from every spelling, *)
(* and emits (literal text, content).                                       *)
EXTENDS StrEsc, Json

CONSTANTS Cps,        \* content code points (one per class)
          KindSet,    \* spellings to use
          Quotes,     \* subset of {34, 39}
          MaxLen,
          MaxCont     \* number of continuations allowed (0 or 1)

VARIABLES text, content, last, ncont, phase
vars == <<text, content, last, ncont, phase>>

Init == /\ \E q \in Quotes : text = <<q>>
        /\ content = <<>> /\ last = "none" /\ ncont = 0 /\ phase = "build"

AddCp == /\ phase = "build" /\ Len(content) < MaxLen
         /\ \E c \in Cps, k \in KindSet :
              /\ KindAllowed(c, k, text[1])
              /\ MayFollow(last, Piece(c, k)[1])
              /\ text' = text \o Piece(c, k)
              /\ content' = Append(content, c)
              /\ last' = k
         /\ UNCHANGED <<ncont, phase>>

AddCont == /\ phase = "build" /\ ncont < MaxCont /\ Len(content) < MaxLen
           /\ text' = text \o <<BS, LF>>
           /\ last' = "cont" /\ ncont' = ncont + 1
           /\ UNCHANGED <<content, phase>>

Finish == /\ phase = "build"
          /\ text' = Append(text, text[1])
          /\ phase' = "done"
          /\ UNCHANGED <<content, last, ncont>>

Next == AddCp \/ AddCont \/ Finish
Spec == Init /\ [][Next]_vars

Done == phase = "done"

(* every spelling denotes the content it was built from *)
LawDecode == Done => Denotes(text, content)
(* an escaped form never denotes a longer string than its text *)
LawLen == Done => Len(content) <= Len(text) - 2

Emit == Done => PrintT(<<"VEC", ToJson([lit |-> text, content |-> content,
                                         expect |-> [content |-> content, len |-> Len(content)]])>>)
=============================================================================
