SPECIFICATION Spec
CONSTANTS
  Keys = {"1", "1.0", "1px", "qa", "a"}
  Keys3 = {"1", "qa", "1px"}
  MaxOps = 3
INVARIANTS InvKeysUnique Emit
CHECK_DEADLOCK FALSE
