------------------------------ MODULE MC_Forms ------------------------------
(* Enumerates the input space of the law C34: every row of Forms!Table x    *)
(* every argument tuple (arity from the required to the full parameter list)*)
(* from the per-type pools.  TLC checks the table's well-formedness and     *)
(* prints one vector per (row, tuple) with the passing forms that apply.    *)
EXTENDS Forms, Json

CONSTANTS Rows        \* set of row indexes enumerated by this configuration

VARIABLES row, args, phase
vars == <<row, args, phase>>

Init == row = 0 /\ args = <<>> /\ phase = "pick"

PickRow == /\ phase = "pick"
           /\ \E i \in Rows \cap DOMAIN Table : row' = i
           /\ phase' = "args"
           /\ UNCHANGED args

AddArg == /\ phase = "args" /\ Len(args) < Len(Table[row].params)
          /\ \E a \in Pool(Table[row].params[Len(args) + 1].t) : args' = Append(args, a)
          /\ UNCHANGED <<row, phase>>

Finish == /\ phase = "args" /\ Len(args) >= Table[row].req
          /\ phase' = "done"
          /\ UNCHANGED <<row, args>>

Next == PickRow \/ AddArg \/ Finish
Spec == Init /\ [][Next]_vars

Done == phase = "done"

InvTable == TableOK
InvForms == Done => (FormsOf(Table[row], Len(args)) # {} /\ FormsOf(Table[row], Len(args)) \subseteq AllForms)

Emit == Done => PrintT(<<"VEC", ToJson([row |-> row, g |-> Table[row].g, mod |-> Table[row].mod, f |-> Table[row].f,
                                        params |-> [i \in 1..Len(args) |-> Table[row].params[i].n],
                                        args |-> args, forms |-> FormsOf(Table[row], Len(args))])>>)
=============================================================================
