----------------------------- MODULE MC_Colors -----------------------------
(* Bounded-exhaustive generator of colour inputs for C31 / C32 / C33 and the  *)
(* model-level laws of the fixed-point colour model (checked by TLC on every   *)
(* generated input).  One vector per input; the vector carries what only the   *)
(* specification can know: the partner notations that provably denote the same *)
(* rgba (C31).  The relations over what rsass then reports are checked by       *)
(* Trace_Colors.                                                                *)
EXTENDS Colors, Json

CONSTANTS Prop,        \* "C31" | "C32" | "C33"
          RgbGrid,     \* rgb channel arguments (milli-units)
          RgbForms,    \* subset of {"comma", "space"}
          RgbpGrid,    \* rgb percentage arguments (milli-percent)
          PctGrid,     \* saturation/lightness/whiteness/blackness arguments (milli-percent)
          HueGrid,     \* hue arguments (milli-degrees)
          HslForms, HwbForms,
          AlphaGrid,   \* alpha arguments (micro-units), -1 = none
          HexDigits,   \* digits of #rgb / #rgba literals
          HexBytes,    \* bytes of #rrggbb / #rrggbbaa literals
          NameForms,   \* subset of {"lower", "upper"}
          Deltas,      \* channel offsets (milli-units) applied to one channel of every named / short-hex colour
          Amounts,     \* C32: amounts (milli-percent)
          Fns,         \* C33: functions applied before printing ("id" = none), every colour
          FnsNamed,    \* C33: further functions applied to the named colours only
          Styles       \* C33: output styles

VARIABLES vec, seed, phase
vars == <<vec, seed, phase>>

(* grids (cfg files cannot write negative numbers: they substitute these by name) *)
RgbGridFull  == {-25500, 0, 85000, 127500, 170000, 255000, 280500}
RgbGridIn    == {0, 85000, 127500, 170000, 255000}
RgbpGridFull == {-10000, 0, 33333, 50000, 100000, 110000}
PctGridFull  == {-10000, 0, 33333, 50000, 66667, 100000, 110000}
PctGridIn    == {0, 33333, 50000, 66667, 100000}
HueGridFull  == {-360000, -30000, 360000, 390000} \cup {30000 * i : i \in 0..11}
HueGridIn    == {30000 * i : i \in 0..11}
AlphaGridFull == {-1, 0, 500000, 1000000, 1500000}
AlphaGridIn   == {-1, 0, 500000}
AlphaGridOpaqueHalf == {-1, 500000}
HueGridC33   == {-30000, 360000} \cup {30000 * i : i \in 0..11}
DeltasPM     == {-1000, -400, 400, 1000}
(* thorough tier *)
RgbGridT     == RgbGridFull \cup {1000, 128000, 254000}
PctGridT     == PctGridFull \cup {25000, 75000}
PctGridInT   == PctGridIn \cup {25000, 75000}
HueGridT     == HueGridFull \cup {15000 * i : i \in 0..23} \cup {-720000, 719000}
AmountsT     == {0, 10000, 25000, 50000, 75000, 100000}

In(ctor, form, args, alpha) == [ctor |-> ctor, form |-> form, args |-> args, alpha |-> alpha]

(* The input space is generated in two steps (seed = constructor family + first argument, then   *)
(* the rest) so that TLC's workers share the second step.                                       *)
Shift(v, i, d) == [j \in 1..3 |-> IF j = i THEN v[j] + d ELSE v[j]]
AnchorSet == {<<NamedColors[i].v[1] * 1000, NamedColors[i].v[2] * 1000, NamedColors[i].v[3] * 1000>> : i \in DOMAIN NamedColors}
             \cup {<<r * 17000, g * 17000, b * 17000>> : r \in HexDigits, g \in HexDigits, b \in HexDigits}

Seeds ==
       {<<"rgb", <<r>> >> : r \in RgbGrid} \cup {<<"rgbp", <<r>> >> : r \in RgbpGrid}
  \cup {<<"hsl", <<h>> >> : h \in HueGrid} \cup {<<"hwb", <<h>> >> : h \in HueGrid}
  \cup {<<"hex3", <<d>> >> : d \in HexDigits} \cup {<<"hex4", <<d>> >> : d \in HexDigits}
  \cup {<<"hex6", <<x>> >> : x \in HexBytes} \cup {<<"hex8", <<x>> >> : x \in HexBytes}
  \cup {<<"name", <<i>> >> : i \in DOMAIN NamedColors} \cup {<<"transparent", <<>> >>}
  \cup (IF Deltas = {} THEN {} ELSE {<<"neigh", v>> : v \in AnchorSet})

ColoursOf(sd) ==
  LET fam == sd[1]
      x   == sd[2] IN
  CASE fam = "rgb"  -> {In("rgb", f, <<x[1], g, b>>, a) : f \in RgbForms, g \in RgbGrid, b \in RgbGrid, a \in AlphaGrid}
    [] fam = "rgbp" -> {In("rgbp", "comma", <<x[1], g, b>>, a) : g \in RgbpGrid, b \in RgbpGrid, a \in AlphaGrid}
    [] fam = "hsl"  -> {In("hsl", f, <<x[1], s, l>>, a) : f \in HslForms, s \in PctGrid, l \in PctGrid, a \in AlphaGrid}
    [] fam = "hwb"  -> {In("hwb", f, <<x[1], w, k>>, a) : f \in HwbForms, w \in PctGrid, k \in PctGrid, a \in AlphaGrid}
    [] fam = "hex3" -> {In("hex3", "lower", <<x[1], g, b>>, -1) : g \in HexDigits, b \in HexDigits}
    [] fam = "hex4" -> {In("hex4", "lower", <<x[1], g, b, a>>, -1) : g \in HexDigits, b \in HexDigits, a \in HexDigits}
    [] fam = "hex6" -> {In("hex6", f, <<x[1], g, b>>, -1) : f \in NameForms, g \in HexBytes, b \in HexBytes}
    [] fam = "hex8" -> {In("hex8", "lower", <<x[1], g, b, a>>, -1) : g \in HexBytes, b \in HexBytes, a \in HexBytes}
    [] fam = "name" -> {In("name", f, x, -1) : f \in NameForms}
    [] fam = "transparent" -> {In("transparent", "lower", <<>>, -1)}
    [] fam = "neigh" -> {c \in {In("rgb", "comma", Shift(x, i, d), -1) : i \in 1..3, d \in Deltas} :
                            \A j \in 1..3 : c.args[j] >= 0 /\ c.args[j] <= CH}

InputsOf(sd) ==
  CASE Prop = "C31" -> {[c |-> c, amt |-> 0, fn |-> "id", style |-> "expanded"] : c \in ColoursOf(sd)}
    [] Prop = "C32" -> {[c |-> c, amt |-> m, fn |-> "id", style |-> "expanded"] : c \in ColoursOf(sd), m \in Amounts}
    [] Prop = "C33" -> {[c |-> c, amt |-> 0, fn |-> f, style |-> s] :
                           c \in ColoursOf(sd), f \in Fns \cup (IF sd[1] = "name" THEN FnsNamed ELSE {}), s \in Styles}

Blank == [c |-> In("transparent", "lower", <<>>, -1), amt |-> 0, fn |-> "id", style |-> "expanded"]
Init == vec = Blank /\ seed = <<"none", <<>> >> /\ phase = "seed"
PickSeed == /\ phase = "seed"
            /\ \E sd \in Seeds : seed' = sd
            /\ phase' = "gen" /\ UNCHANGED vec
Gen  == /\ phase = "gen"
        /\ \E i \in InputsOf(seed) : vec' = i
        /\ phase' = "done" /\ UNCHANGED seed
Next == PickSeed \/ Gen
Spec == Init /\ [][Next]_vars

Done == phase = "done"
C == vec.c
Id == Ideal(C.ctor, C.args, C.alpha)

---------------------------------------------------------------------------
(* Laws of the fixed-point model, on every generated colour.                  *)

LawIdealInRange == Done => LET id == Id IN IdealInRange(id)
LawRefBound     == Done => LET id == Id IN RefBound(id)
LawPartnersSame == Done => LET id == Id
                               ps == Partners(C.ctor, C.args, C.alpha) IN PartnersSame(id, ps)

Emit == Done => PrintT(<<"VEC", ToJson([ctor |-> C.ctor, form |-> C.form, args |-> C.args, alpha |-> C.alpha,
                                        amt |-> vec.amt, fn |-> vec.fn, style |-> vec.style,
                                        partners |-> Partners(C.ctor, C.args, C.alpha)])>>)
=============================================================================
