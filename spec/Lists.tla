------------------------------- MODULE Lists -------------------------------
(***************************************************************************)
(* The Sass list model and the sass:list functions (property C28).         *)
(*                                                                         *)
(* Abstracts rsass/src/sass/functions/list.rs (append, index,              *)
(* is-bracketed, join, length, separator, nth, set-nth, zip; get_list,     *)
(* index_of) and css::Value::iter_items.                                   *)
(*                                                                         *)
(* A value is one record shape [t, tok, items, sep, br]:                   *)
(*   t = "leaf"     a non-list value named by its token `tok`              *)
(*   t = "list"     items, sep in {space, comma, slash, undecided}, br 0/1 *)
(*   t = "map"      items = the key/value pairs, each a 2-element space    *)
(*                  list; as a list: comma separated (undecided if empty)  *)
(*   t = "arglist"  items = the positional arguments; as a list: comma     *)
(* Every value acts as a list: a leaf is a one-element list with an        *)
(* undecided separator and no brackets.                                    *)
(*                                                                         *)
(* Named deviation (what the pinned tree does instead):                    *)
(*   length_null_is_zero   list.length(null) is 0 (null treated as an      *)
(*                         empty list) although null is a single value     *)
(*   index_arglist_as_scalar  list.index on an argument list compares the  *)
(*                         whole argument list with the value: always null *)
(***************************************************************************)
EXTENDS Integers, Sequences, FiniteSets, TLC

Leaf(tok)            == [t |-> "leaf", tok |-> tok, items |-> <<>>, sep |-> "", br |-> 0]
List(items, sep, br) == [t |-> "list", tok |-> "", items |-> items, sep |-> sep, br |-> br]
Map(pairs)           == [t |-> "map", tok |-> "", items |-> pairs, sep |-> "", br |-> 0]
ArgList(items)       == [t |-> "arglist", tok |-> "", items |-> items, sep |-> "", br |-> 0]
Pair(k, v)           == List(<<k, v>>, "space", 0)
ErrVal               == [t |-> "err", tok |-> "", items |-> <<>>, sep |-> "", br |-> 0]
UndefVal             == [t |-> "undef", tok |-> "", items |-> <<>>, sep |-> "", br |-> 0]
Nothing              == Leaf("")

Seps == {"space", "comma", "slash", "undecided"}

(* the list view of any value *)
Items(v) == IF v.t = "leaf" THEN <<v>> ELSE v.items
SepOf(v) == CASE v.t = "list"    -> v.sep
              [] v.t = "map"     -> (IF v.items = <<>> THEN "undecided" ELSE "comma")
              [] v.t = "arglist" -> "comma"
              [] OTHER           -> "undecided"
BrOf(v)  == IF v.t = "list" THEN v.br ELSE 0

---------------------------------------------------------------------------
(* Sass `==` on the values used here.  Leaf tokens that denote the same    *)
(* value under different spellings share a class.                          *)
EqClass(tok) == CASE tok = "1.0" -> "1"
                  [] tok = "2.0" -> "2"
                  [] tok = "qa"  -> "a"      \* "a" (quoted) == a
                  [] tok = "qb"  -> "b"
                  [] tok = "qc"  -> "c"
                  [] OTHER       -> tok

RECURSIVE ValEq(_, _)
(* TRUE / FALSE; lists are equal when separator, brackets and items agree  *)
ValEq(a, b) ==
  IF a.t = "leaf" /\ b.t = "leaf" THEN EqClass(a.tok) = EqClass(b.tok)
  ELSE IF a.t = "leaf" \/ b.t = "leaf" THEN FALSE
  ELSE /\ a.t = b.t /\ SepOf(a) = SepOf(b) /\ BrOf(a) = BrOf(b)
       /\ Len(a.items) = Len(b.items)
       /\ \A p \in 1..Len(a.items) : ValEq(a.items[p], b.items[p])

(* equality this model does not decide: a list compared with a list whose  *)
(* separator is undecided but not both empty, or maps/arglists as operands *)
RECURSIVE EqDefined(_, _)
EqDefined(a, b) ==
  IF a.t = "leaf" \/ b.t = "leaf" THEN TRUE
  ELSE /\ a.t = "list" /\ b.t = "list"
       /\ a.sep # "undecided" /\ b.sep # "undecided"
       /\ (Len(a.items) = Len(b.items) => \A p \in 1..Len(a.items) : EqDefined(a.items[p], b.items[p]))

---------------------------------------------------------------------------
(* index domain: 1..n and -n..-1 *)
ValidIndex(n, len) == (n >= 1 /\ n <= len) \/ (n <= -1 /\ n >= 0 - len)
Pos(n, len) == IF n > 0 THEN n ELSE len + n + 1

FirstDecided(s1, s2) == IF s1 # "undecided" THEN s1 ELSE IF s2 # "undecided" THEN s2 ELSE "space"

SetMin(S) == CHOOSE x \in S : \A y \in S : x <= y
SeqMin(q) == SetMin({q[i] : i \in DOMAIN q})

(* An operation on the current value cur:                                  *)
(*   [f, n, v, o, o2, sep, br, side]                                        *)
(*   f    function; n index; v value argument; o (and o2 for zip) another  *)
(*   list argument; sep in {auto, space, comma, slash}; br in {auto, true, *)
(*   false}; side = "l" if cur is the first list argument, "r" if second.  *)
Apply(cur, op, Dev) ==
  LET items == Items(cur)
      len   == Len(items) IN
  CASE op.f = "length" ->
         IF "length_null_is_zero" \in Dev /\ cur = Leaf("null") THEN Leaf("0") ELSE Leaf(ToString(len))
    [] op.f = "nth" ->
         IF ValidIndex(op.n, len) THEN items[Pos(op.n, len)] ELSE ErrVal
    [] op.f = "set-nth" ->
         IF ValidIndex(op.n, len)
         THEN List([items EXCEPT ![Pos(op.n, len)] = op.v], SepOf(cur), BrOf(cur))
         ELSE ErrVal
    [] op.f = "append" ->
         List(Append(items, op.v),
              IF op.sep # "auto" THEN op.sep ELSE FirstDecided(SepOf(cur), "undecided"),
              BrOf(cur))
    [] op.f = "join" ->
         LET l1 == IF op.side = "l" THEN cur ELSE op.o
             l2 == IF op.side = "l" THEN op.o ELSE cur IN
         List(Items(l1) \o Items(l2),
              IF op.sep # "auto" THEN op.sep ELSE FirstDecided(SepOf(l1), SepOf(l2)),
              IF op.br = "true" THEN 1 ELSE IF op.br = "false" THEN 0 ELSE BrOf(l1))
    [] op.f = "index" ->
         IF "index_arglist_as_scalar" \in Dev /\ cur.t = "arglist" THEN Leaf("null")
         ELSE IF \E p \in 1..len : ~EqDefined(items[p], op.v) THEN UndefVal
         ELSE LET P == {p \in 1..len : ValEq(items[p], op.v)} IN
              IF P = {} THEN Leaf("null") ELSE Leaf(ToString(SetMin(P)))
    [] op.f = "zip" ->
         LET ls == IF op.o2 = Nothing
                   THEN (IF op.o = Nothing THEN <<cur>> ELSE IF op.side = "l" THEN <<cur, op.o>> ELSE <<op.o, cur>>)
                   ELSE <<op.o, cur, op.o2>>
             n  == SeqMin([k \in 1..Len(ls) |-> Len(Items(ls[k]))]) IN
         List([p \in 1..n |-> List([k \in 1..Len(ls) |-> Items(ls[k])[p]], "space", 0)], "comma", 0)
    [] op.f = "separator" ->
         Leaf(IF SepOf(cur) = "undecided" THEN "space" ELSE SepOf(cur))
    [] op.f = "is-bracketed" ->
         Leaf(IF BrOf(cur) = 1 THEN "true" ELSE "false")
    [] OTHER -> UndefVal

(* queries leave the current value alone, updates replace it by the result *)
IsUpdate(op) == op.f \in {"set-nth", "append", "join", "zip"}

---------------------------------------------------------------------------
(* The observable of a value: structure only.  The separator is what       *)
(* list.separator reports (undecided reads as space); a leaf is its        *)
(* printed token (1.0 prints as 1).                                        *)
PrintTok(tok) == IF tok = "1.0" THEN "1" ELSE IF tok = "2.0" THEN "2" ELSE tok

RECURSIVE Obs(_)
Obs(v) ==
  CASE v.t = "leaf" -> Leaf(PrintTok(v.tok))
    [] v.t \in {"list", "arglist"} ->
         List([p \in 1..Len(v.items) |-> Obs(v.items[p])],
              IF SepOf(v) = "undecided" THEN "space" ELSE SepOf(v), BrOf(v))
    [] v.t = "map" -> [v EXCEPT !.items = [p \in 1..Len(v.items) |-> Obs(v.items[p])]]
    [] OTHER -> v

(* Run a sequence of operations from init: the observable is the sequence  *)
(* of results; if any step raises, the whole run is one error (the         *)
(* stylesheet fails to compile); if any step is undefined, so is the run.  *)
RECURSIVE Results(_, _, _)
Results(cur, ops, Dev) ==
  IF ops = <<>> THEN <<>>
  ELSE LET r == Apply(cur, Head(ops), Dev) IN
       IF r.t \in {"err", "undef"} THEN <<r>>
       ELSE <<r>> \o Results(IF IsUpdate(Head(ops)) THEN r ELSE cur, Tail(ops), Dev)

Run(init, ops, Dev) ==
  LET rs == Results(init, ops, Dev) IN
  IF \E p \in 1..Len(rs) : rs[p].t = "undef" THEN <<UndefVal>>
  ELSE IF \E p \in 1..Len(rs) : rs[p].t = "err" THEN <<ErrVal>>
  ELSE [p \in 1..Len(rs) |-> Obs(rs[p])]

Defined(init, ops) == Run(init, ops, {})[1].t # "undef"

AllDevs == {"length_null_is_zero", "index_arglist_as_scalar"}
DevMap(init, ops) ==
  LET ideal == Run(init, ops, {}) IN
  [d \in {d \in AllDevs : Run(init, ops, {d}) # ideal} |-> Run(init, ops, {d})]

---------------------------------------------------------------------------
(* Laws of the ideal model, checked by TLC on every generated run.         *)
ToNat(tokv) == CHOOSE n \in 0..64 : ToString(n) = tokv.tok

LawOp(cur, op) ==
  LET r == Apply(cur, op, {}) items == Items(cur) len == Len(items) IN
  CASE op.f = "nth" ->
         /\ (r.t = "err") = ~ValidIndex(op.n, len)
         /\ (op.n = 0 => r.t = "err")
         /\ (op.n < 0 /\ r.t # "err" => r = Apply(cur, [op EXCEPT !.n = len + op.n + 1], {}))
    [] op.f = "set-nth" ->
         (r.t # "err" =>
            /\ Len(r.items) = len /\ r.sep = SepOf(cur) /\ r.br = BrOf(cur)
            /\ r.items[Pos(op.n, len)] = op.v
            /\ \A p \in 1..len : p # Pos(op.n, len) => r.items[p] = items[p])
    [] op.f = "append" ->
         /\ Len(r.items) = len + 1 /\ r.items[len + 1] = op.v
         /\ \A p \in 1..len : r.items[p] = items[p]
         /\ r.br = BrOf(cur) /\ r.sep # "undecided"
         /\ (op.sep # "auto" => r.sep = op.sep)
         /\ (op.sep = "auto" /\ SepOf(cur) # "undecided" => r.sep = SepOf(cur))
    [] op.f = "join" ->
         /\ Len(r.items) = len + Len(Items(op.o)) /\ r.sep # "undecided"
         /\ (op.sep # "auto" => r.sep = op.sep)
         /\ (op.br = "auto" => r.br = BrOf(IF op.side = "l" THEN cur ELSE op.o))
    [] op.f = "index" ->
         (r.t = "leaf" /\ r.tok # "null" =>
            /\ ValEq(items[ToNat(r)], op.v)
            /\ \A p \in 1..(ToNat(r) - 1) : ~ValEq(items[p], op.v))
    [] op.f = "zip" ->
         /\ Len(r.items) <= len
         /\ \A p \in 1..Len(r.items) : r.items[p].items[IF op.side = "l" /\ op.o2 = Nothing THEN 1 ELSE 2] = items[p]
    [] OTHER -> TRUE
=============================================================================
