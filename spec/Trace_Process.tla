---------------------------- MODULE Trace_Process ----------------------------
(* Trace validation for the process engine (C05, C06).  Events:             *)
(*  C05  {ev:"Fresh",   case, digest}           compiled alone in a fresh   *)
(*                                               process (history length 1) *)
(*       {ev:"Compile", thread, seq, case, digest} the same input inside a  *)
(*                                               history / next to other    *)
(*                                               threads: must equal memo   *)
(*  C06  {ev:"Issue", id}     hook event written under the CALL_ID lock,    *)
(*                            sorted by id: the counter only ever moves by  *)
(*                            one, so every id is handed out once            *)
(*       {ev:"Observe", id, text} an identifier found in the CSS output,    *)
(*                            sorted by id: one of the issued ids, seen      *)
(*                            once, and a valid CSS identifier               *)
(*       {ev:"Random", limit, v}  a result of math.random($limit)           *)
(* ids and numbers are decimals of spec/Dec.tla (digit sequences: they      *)
(* exceed TLC's 32-bit integers).                                           *)
EXTENDS Dec, Json, IOUtils, TLC, TLCExt, FiniteSets

Rec == ndJsonDeserialize(IOEnv.TRACE)

VARIABLES l, memo, first, last, lastObs
tvars == <<l, memo, first, last, lastObs>>
None == [neg |-> 0, ds |-> <<>>, sc |-> 0]      \* DZero: "nothing yet"

Init == l = 1 /\ memo = <<>> /\ first = None /\ last = None /\ lastObs = None

Ev == Rec[l]
Is(e) == l <= Len(Rec) /\ Rec[l].ev = e
D(digits) == Dec(0, digits, 0)

MemoOf(c) == LET S == {i \in DOMAIN memo : memo[i].case = c} IN
             IF S = {} THEN "" ELSE memo[CHOOSE i \in S : TRUE].digest

Fresh == /\ Is("Fresh")
         /\ (MemoOf(Ev.case) = "" \/ MemoOf(Ev.case) = Ev.digest)     \* two fresh runs agree
         /\ memo' = IF MemoOf(Ev.case) = "" THEN Append(memo, [case |-> Ev.case, digest |-> Ev.digest]) ELSE memo
         /\ l' = l + 1 /\ UNCHANGED <<first, last, lastObs>>

(* Process!Deterministic on the observed history *)
Compile == /\ Is("Compile")
           /\ MemoOf(Ev.case) = Ev.digest
           /\ l' = l + 1 /\ UNCHANGED <<memo, first, last, lastObs>>

(* Process!UidIncr: callId' = callId + 1 *)
Issue == /\ Is("Issue")
         /\ IF DIsZero(last) THEN first' = D(Ev.id)
            ELSE DEq(D(Ev.id), DAdd(last, DFromInt(1))) /\ UNCHANGED first
         /\ last' = D(Ev.id)
         /\ l' = l + 1 /\ UNCHANGED <<memo, lastObs>>

(* a CSS identifier: letters, digits, - and _, not starting with a digit   *)
IsIdentStart(c) == (c >= 65 /\ c <= 90) \/ (c >= 97 /\ c <= 122) \/ c = 95 \/ c >= 128
IsIdentChar(c)  == IsIdentStart(c) \/ (c >= 48 /\ c <= 57) \/ c = 45
IsCssIdent(t) == /\ Len(t) >= 1
                 /\ IsIdentStart(t[1]) \/ (t[1] = 45 /\ Len(t) >= 2 /\ (IsIdentStart(t[2]) \/ t[2] = 45))
                 /\ \A i \in DOMAIN t : IsIdentChar(t[i])

Observe == /\ Is("Observe")
           /\ IsCssIdent(Ev.text)
           /\ DCmp(D(Ev.id), first) >= 0 /\ DCmp(D(Ev.id), last) <= 0      \* it was issued
           /\ (DIsZero(lastObs) \/ DCmp(D(Ev.id), lastObs) > 0)             \* and never seen before
           /\ lastObs' = D(Ev.id)
           /\ l' = l + 1 /\ UNCHANGED <<memo, first, last>>

(* math.random(): [0, 1);  math.random($limit): an integer in 1..$limit    *)
IsInteger(v) == \A i \in (Len(v.ds) - v.sc + 1)..Len(v.ds) : i < 1 \/ v.ds[i] = 0
Random == /\ Is("Random")
          /\ IF Ev.limit = <<>>
             THEN /\ Ev.v.neg = 0 \/ DIsZero(Ev.v)
                  /\ DCmp(Ev.v, DFromInt(1)) < 0
             ELSE /\ IsInteger(Ev.v)
                  /\ DCmp(Ev.v, DFromInt(1)) >= 0
                  /\ DCmp(Ev.v, D(Ev.limit)) <= 0
          /\ l' = l + 1 /\ UNCHANGED <<memo, first, last, lastObs>>

Next == (Fresh \/ Compile \/ Issue \/ Observe \/ Random)
Spec == Init /\ [][Next]_tvars
Accepted == IF TLCGet("stats").diameter - 1 = Len(Rec) THEN TRUE
            ELSE PrintT(<<"UNMATCHED", TLCGet("stats").diameter>>) /\ FALSE
=============================================================================
