SPECIFICATION Spec
CONSTANTS
  Mode = "derive"
  MaxLen = 400
  MaxDepth = 64
  MaxMut = 0
  MinLen = 30
  Climb = 0
  Alphabet <- SoupAlphabet
INVARIANTS DepthOk EmitVec
CHECK_DEADLOCK FALSE
