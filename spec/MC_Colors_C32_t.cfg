SPECIFICATION Spec
CONSTANTS
  Prop = "C32"
  RgbGrid <- RgbGridIn
  RgbForms = {"comma"}
  RgbpGrid = {}
  PctGrid <- PctGridInT
  HueGrid <- HueGridIn
  HslForms = {"comma"}
  HwbForms = {"space"}
  AlphaGrid <- AlphaGridIn
  HexDigits = {0, 8, 15}
  HexBytes = {}
  NameForms = {"lower"}
  Deltas = {}
  Amounts <- AmountsT
  Fns = {}
  FnsNamed = {}
  Styles = {}
INVARIANTS LawIdealInRange LawRefBound LawPartnersSame Emit
CHECK_DEADLOCK FALSE
