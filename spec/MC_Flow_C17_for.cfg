SPECIFICATION Spec
CONSTANTS
  Kind = "for"
  Ctxs = {"top"}
  CondSet = {}
  MaxConds = 0
  ElseSet = {}
  NCondSet = {}
  AVals <- Range6
  BVals <- Range6
  TVals <- Range6
  UnitsA = {"", "px", "pt", "pc", "in", "cm", "mm", "s", "ms", "%"}
  UnitsB = {"", "px", "pt", "pc", "in", "cm", "mm", "s", "ms", "%"}
  MaxOut = 14
  Shapes = {}
  NVars = {}
  ItemCodes = {}
  MaxItems = 0
  ISeps = {}
INVARIANTS LawHolds LawWellFormed Emit
CHECK_DEADLOCK FALSE
