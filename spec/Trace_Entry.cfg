SPECIFICATION Spec
INVARIANT InvAgreement
POSTCONDITION Accepted
CHECK_DEADLOCK FALSE
