---------------------------- MODULE Trace_Loader ----------------------------
(* Trace validation of recorded compilations against the Loader machine.   *)
(* A trace is a concatenation of runs:                                      *)
(*   {ev:"Begin", files:{..}, devs:[open deviation names], case:n}          *)
(*   hook events of rsass (cfg kaj_rsass_verif), in program order:          *)
(*     Lock{name,module,n}  LockLoop{name}  Unlock{name,n}                  *)
(*     CacheHit{name}  InitStart{name}  InitEnd{name,n}                     *)
(*   {ev:"End", result:"ok"|"loop"|"overflow"|...}                          *)
(* `name` is the textual name as a sequence of path segments without the   *)
(* .scss suffix; n is the size of Context.loading (Lock/Unlock) or of       *)
(* CssData.modules (InitEnd) after the step.                                *)
(* Steps of the machine the code has no hook for (entering an imported or  *)
(* load-css'ed body, leaving a body, advancing) are silent steps; the       *)
(* machine is deterministic, so they never branch.                          *)
EXTENDS Loader, Json, IOUtils, TLCExt

Rec == ndJsonDeserialize(IOEnv.TRACE)

VARIABLES l, case
tvars == <<lvars, l, case>>

SeqToSet(s) == {s[i] : i \in DOMAIN s}
Ev == Rec[l]
IsEvent(e) == l <= Len(Rec) /\ Rec[l].ev = e
Consume == l' = l + 1 /\ UNCHANGED case

Init == /\ l = 1 /\ case = -1
        /\ Dev = {} /\ prog = [f \in Files |-> <<>>]
        /\ stack = <<>> /\ loading = {} /\ modcache = {} /\ result = "idle"
        /\ execs = [f \in Files |-> 0] /\ modinits = [f \in Files |-> 0]
        /\ calls = 0 /\ fault = [at |-> 0, kind |-> "find"]

(* a new compilation: its deviation set is any subset of the OPEN findings  *)
Begin == /\ IsEvent("Begin") /\ result # "run"
         /\ Dev' \in SUBSET SeqToSet(Ev.devs)
         /\ prog' = Ev.files
         /\ stack' = <<>> /\ loading' = {} /\ modcache' = {} /\ result' = "start"
         /\ execs' = [f \in Files |-> 0] /\ modinits' = [f \in Files |-> 0]
         /\ calls' = 0 /\ fault' = Ev.fault
         /\ l' = l + 1 /\ case' = Ev.case

(* Context::transform locks the root file first *)
LockRoot == /\ IsEvent("Lock") /\ result = "start"
            /\ Ev.name = <<Root>> /\ Ev.n = 1
            /\ stack' = <<Frame(Root, <<Root>>, "root", TRUE)>>
            /\ loading' = {LockKey(<<Root>>)}
            /\ result' = "run"
            /\ execs' = [execs EXCEPT ![Root] = 1]
            /\ Consume /\ UNCHANGED <<Dev, prog, modcache, modinits, calls, fault>>

TLock == /\ IsEvent("Lock") /\ result = "run"
         /\ Lock
         /\ Ev.name = TgtName
         /\ Ev.n = Cardinality(loading')
         /\ Ev.module = (Stmt.kind # "import")     \* find_file: is_module = !from.is_import()
         /\ Consume

TLockLoop == /\ IsEvent("LockLoop") /\ result = "run"
             /\ LockLoop
             /\ Ev.name = TgtName
             /\ Consume

TCacheHit == /\ IsEvent("CacheHit") /\ CacheHit /\ Ev.name = TgtName /\ Consume

TInitStart == /\ IsEvent("InitStart") /\ Ev.name = TgtName /\ InitStart /\ Consume

(* InitEnd is emitted when load_module inserts the finished module *)
TInitEnd == /\ IsEvent("InitEnd")
            /\ Running /\ IsModuleKind(Top.kind)
            /\ Ev.name = Top.name
            /\ Leave
            /\ Ev.n = Cardinality({k \in modcache' : k[1] = CssHeadOf(stack')})     \* size of that holder's map
            /\ Consume

TUnlock == /\ IsEvent("Unlock") /\ result = "run" /\ Len(stack) >= 1
           /\ IF Len(stack) = 1 /\ Top.phase = "at" /\ Top.pc > Len(prog[Root])
              THEN /\ Return /\ Ev.name = <<Root>> /\ Ev.n = 0
              ELSE /\ Unlock /\ Ev.name = TgtName /\ Ev.n = Cardinality(loading')
           /\ Consume

(* load-css under the loadcss_unlock_early deviation: the Unlock event     *)
(* comes right after Lock, before the body                                   *)
TUnlockEarly == /\ IsEvent("Unlock") /\ "loadcss_unlock_early" \in Dev
                /\ Locked /\ Stmt.kind = "loadcss"
                /\ Ev.name = TgtName
                /\ EnterLoadCss
                /\ Ev.n = Cardinality(loading')
                /\ Consume

(* silent machine steps *)
Silent == /\ result = "run"
          /\ \/ EnterImport
             \/ ("loadcss_unlock_early" \notin Dev /\ EnterLoadCss)
             \/ (Running /\ ~IsModuleKind(Top.kind) /\ Leave)
             \/ Advance
          /\ UNCHANGED <<l, case>>

(* error path: after a loop error the code still unlocks what it holds on   *)
(* its way out (Item::Forward unlocks before propagating the error)        *)
TCleanup == /\ IsEvent("Unlock") /\ result \in {"loop", "err"}
            /\ UNCHANGED lvars /\ Consume

(* a loader failure has no hook event: it is a silent step of the machine,  *)
(* taken only when the recorded run ends with an error right here          *)
(* (only cleanup Unlock events may still precede the End)                    *)
EndIdx == CHOOSE j \in l..Len(Rec) : Rec[j].ev = "End" /\ \A k \in l..(j - 1) : Rec[k].ev # "End"
TLoadFault == /\ l <= Len(Rec) /\ result = "run"
              /\ \E j \in l..Len(Rec) : Rec[j].ev = "End"
              /\ Rec[EndIdx].result = "err"
              /\ \A k \in l..(EndIdx - 1) : Rec[k].ev = "Unlock"
              /\ LoadFault
              /\ UNCHANGED <<l, case>>

(* the compilation returned: the machine must be in the same outcome class; *)
(* report under which deviation set this run was explained                  *)
End == /\ IsEvent("End")
       /\ result = Ev.result
       /\ PrintT(<<"MSG", "EXPL", case, Dev>>)
       /\ result' = "idle"
       /\ UNCHANGED <<Dev, prog, stack, loading, modcache, execs, modinits, calls, fault>>
       /\ Consume

(* an overflowing implementation run ends without further events: the       *)
(* machine, run on with silent and unobserved steps, must overflow too      *)
Unobserved == /\ IsEvent("End") /\ Ev.result \in {"overflow", "timeout"}
              /\ IF result = "start"
                 THEN /\ stack' = <<Frame(Root, <<Root>>, "root", TRUE)>>
                      /\ loading' = {LockKey(<<Root>>)}
                      /\ result' = "run"
                      /\ execs' = [execs EXCEPT ![Root] = 1]
                      /\ UNCHANGED <<Dev, prog, modcache, modinits, calls, fault>>
                 ELSE result = "run" /\ RunNext
              /\ UNCHANGED <<l, case>>

Next == Begin \/ LockRoot \/ TLock \/ TLockLoop \/ TCacheHit \/ TInitStart \/ TInitEnd
        \/ TUnlock \/ TUnlockEarly \/ TLoadFault \/ TCleanup \/ Silent \/ End \/ Unobserved
Spec == Init /\ [][Next]_tvars

(* the properties of the design, evaluated at every step of every recorded run *)
TraceLockDiscipline == result = "run" => LockDiscipline
TraceDepthBound     == result = "run" => DepthBound
TraceInitOnce       == InitOnce
TraceFaultReported  == result \notin {"idle", "start"} => FaultReported

(* acceptance: the furthest position reached (register 1) is the trace end *)
ASSUME TLCSet(1, 0)
Track == (IF l > TLCGet(1) THEN TLCSet(1, l) ELSE TRUE)
Accepted == IF TLCGet(1) = Len(Rec) + 1 THEN TRUE
            ELSE PrintT(<<"UNMATCHED", TLCGet(1)>>) /\ FALSE
=============================================================================
