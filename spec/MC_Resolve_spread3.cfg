SPECIFICATION Spec
CONSTANTS
  Mode = "spread"
  MaxFiles = 3
  GenKinds = {"use", "forward", "import"}
  GenPre = {"none"}
  GenWhere = {"root", "sub"}
INVARIANTS Laws Emit
CHECK_DEADLOCK FALSE
