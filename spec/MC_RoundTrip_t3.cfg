SPECIFICATION Spec
CONSTANTS
  MaxItems = 3
  KS = {"r_class", "r_attr", "d_ident", "d_str", "d_urlq", "media", "keyframes", "comment"}
  CS = {"bmp", "private", "dquote", "backslash"}
  SH = {"dig"}
  CT = {}
  FN = {}
INVARIANT Generated
INVARIANT EmitVec
CHECK_DEADLOCK FALSE
