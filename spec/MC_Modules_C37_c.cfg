SPECIFICATION Spec
CONSTANTS
  MaxW = 1
  MaxRoot = 2
  MaxMid = 1
  RootTargets = {"a", "b", "m"}
  MidTargets = {"a"}
  Spellings = {"plain", "us"}
  CfgPool = "basic"
  ListPool = "basic"
  AccNs = {"", "a", "b", "m", "n"}
  LawDev = {}
  AccMembers <- AccMembersFwd
INVARIANTS InvNamespaceOnly InvConfigOnlyDefault InvShowHideComplement InvFilterExact InvBuiltin Emit
CHECK_DEADLOCK FALSE
