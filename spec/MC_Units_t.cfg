SPECIFICATION Spec
CONSTANTS
  Ops = {"+", "-", "<", "<=", ">", ">=", "==", "*", "div"}
  UnitsA <- AllUnits
  UnitsB <- AllUnits
  Mags <- Mags_t
INVARIANTS Table Laws Emit
CHECK_DEADLOCK FALSE
