SPECIFICATION Spec
CONSTANTS
  Pool = {1,2,3,4,5,6,7,8,9,10,11,12}
  MaxStmts = 3
  MaxRw = 1
  Kinds = {"InsertWs", "InsertCmt", "RenameVar", "RenameFn", "RenameMixin", "SwapSep", "Hoist", "InsertDebug", "InsertWarn", "MoveToPartial"}
  Unguarded = FALSE
INVARIANTS InvPreserved InvShape Emit
CHECK_DEADLOCK FALSE
