SPECIFICATION Spec
CONSTANTS
  Keys = {"1", "1.0", "1px", "qa", "a", "sa", "red", "#f00"}
  Keys3 = {"1", "qa", "#f00"}
  MaxOps = 4
VIEW ViewM
INVARIANTS InvKeysUnique InvLaws InvRun
CHECK_DEADLOCK FALSE
