SPECIFICATION Spec
CONSTANTS
  MaxLen = 5
  StepMode = TRUE
  DeclSet = {"id", "strna", "url", "list", "call"}
  CpropSet = {"nl", "na"}
  CmtSet = {"one", "multi", "na"}
  RuleSet = {"asc", "na"}
  AtAttr = {"-"}
  Extra = {}
INVARIANT DesignAccepted
INVARIANT StepAccepted
CHECK_DEADLOCK FALSE
