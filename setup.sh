#!/bin/bash
# Build the framework from files on disk only (offline) and self-test the binding.
set -e
cd "$(dirname "$0")"
export CARGO_NET_OFFLINE=true
mkdir -p work evidence
(cd harness && cargo build --release --offline 2>&1 | tail -2)
python3 tools/selftest.py
